//! Relational operator engines for C12 (declared output types), C13 (in-place
//! and commuted execution) and C14 (layout independence).
//!
//! `vh-ops relational <inplace|layout|types|list> --out <trace.ndjson> [options]`
//!
//! The harness only *drives* the real operators (obtained from single-operator
//! ONNX models decoded by the real loader) and records what they returned.
//! Every pass/fail decision is taken by TLC in `specs/ops/Trace_Relational.tla`.

pub mod catalogue;
pub mod catalogue2;
pub mod catalogue3;
mod inplace;
mod layout;
mod types;

use std::sync::Arc;

use rten::verif::{
    BufferPool, DataType, InPlaceInputs, InputList, Node, OpRunContext, Operator, OutputMask,
    Sequence, Value, ValueType, ValueView,
};
use rten_tensor::prelude::*;
use rten_tensor::{Tensor, TensorView};
use vcommon::{Rng, Value as J, json, onnx};

pub type OpArc = Arc<dyn Operator + Send + Sync>;

// ------------------------------------------------------------------ data model

#[derive(Clone, Copy, PartialEq, Eq, Debug)]
pub enum DT {
    F32,
    I32,
    I8,
    U8,
}

impl DT {
    pub const ALL: [DT; 4] = [DT::F32, DT::I32, DT::I8, DT::U8];
    pub fn name(self) -> &'static str {
        match self {
            DT::F32 => "f32",
            DT::I32 => "i32",
            DT::I8 => "i8",
            DT::U8 => "u8",
        }
    }
    pub fn from_name(s: &str) -> Option<DT> {
        DT::ALL.iter().copied().find(|d| d.name() == s)
    }
    pub fn of(d: DataType) -> DT {
        match d {
            DataType::Float => DT::F32,
            DataType::Int32 => DT::I32,
            DataType::Int8 => DT::I8,
            DataType::UInt8 => DT::U8,
            _ => panic!("unknown DataType"),
        }
    }
    pub fn onnx(self) -> i32 {
        match self {
            DT::F32 => onnx::FLOAT,
            DT::I32 => onnx::INT32,
            DT::I8 => onnx::INT8,
            DT::U8 => onnx::UINT8,
        }
    }
}

pub fn vt_name(v: ValueType) -> String {
    match v {
        ValueType::Tensor(d) => DT::of(d).name().to_string(),
        ValueType::Sequence(d) => format!("seq_{}", DT::of(d).name()),
        _ => "unknown".to_string(),
    }
}

/// A logical tensor. `vals` holds the element *bits* for f32 and the element
/// value for the integer types, in row-major order.
#[derive(Clone, Debug, PartialEq)]
pub struct T {
    pub dt: DT,
    pub shape: Vec<usize>,
    pub vals: Vec<i32>,
}

impl T {
    pub fn f(shape: &[usize], v: &[f32]) -> T {
        assert_eq!(shape.iter().product::<usize>(), v.len());
        T {
            dt: DT::F32,
            shape: shape.to_vec(),
            vals: v.iter().map(|x| x.to_bits() as i32).collect(),
        }
    }
    pub fn i(shape: &[usize], v: &[i32]) -> T {
        assert_eq!(shape.iter().product::<usize>(), v.len());
        T {
            dt: DT::I32,
            shape: shape.to_vec(),
            vals: v.to_vec(),
        }
    }
    pub fn typed(dt: DT, shape: &[usize], v: &[i32]) -> T {
        assert_eq!(shape.iter().product::<usize>(), v.len());
        T {
            dt,
            shape: shape.to_vec(),
            vals: v.to_vec(),
        }
    }
    /// 1-D i32 tensor.
    pub fn ints(v: &[i64]) -> T {
        T::i(&[v.len()], &v.iter().map(|x| *x as i32).collect::<Vec<_>>())
    }
    pub fn scalar_i(v: i32) -> T {
        T::i(&[], &[v])
    }
    pub fn scalar_f(v: f32) -> T {
        T::f(&[], &[v])
    }
    pub fn numel(&self) -> usize {
        self.vals.len()
    }
    pub fn json(&self) -> J {
        json!({"dtype": self.dt.name(), "shape": self.shape, "bits": self.vals, "items": []})
    }
    /// Dims of size > 1 along which the content is constant.
    pub fn const_dims(&self) -> Vec<usize> {
        let n = self.shape.len();
        let mut out = Vec::new();
        if self.numel() == 0 {
            return out;
        }
        let rm = row_major(&self.shape);
        for d in 0..n {
            if self.shape[d] < 2 {
                continue;
            }
            let mut ok = true;
            for (lin, _) in self.vals.iter().enumerate() {
                let idx_d = (lin / rm[d]) % self.shape[d];
                let base = lin - idx_d * rm[d];
                if self.vals[lin] != self.vals[base] {
                    ok = false;
                    break;
                }
            }
            if ok {
                out.push(d);
            }
        }
        out
    }
    /// Copy index 0 along `d` over the whole dim (makes the content constant along `d`).
    pub fn make_const_along(&mut self, d: usize) {
        let rm = row_major(&self.shape);
        for lin in 0..self.vals.len() {
            let idx_d = (lin / rm[d]) % self.shape[d];
            let base = lin - idx_d * rm[d];
            self.vals[lin] = self.vals[base];
        }
    }
}

/// An operator input: absent optional input, tensor, or sequence of tensors.
#[derive(Clone, Debug)]
pub enum In {
    None,
    T(T),
    Seq(DT, Vec<T>),
}

impl In {
    pub fn json(&self) -> J {
        match self {
            In::None => json!({"dtype": "none", "shape": [], "bits": [], "items": []}),
            In::T(t) => t.json(),
            In::Seq(dt, items) => json!({
                "dtype": format!("seq_{}", dt.name()), "shape": [], "bits": [],
                "items": items.iter().map(|t| json!({"shape": t.shape, "bits": t.vals})).collect::<Vec<_>>()
            }),
        }
    }
    pub fn type_name(&self) -> String {
        match self {
            In::None => "none".into(),
            In::T(t) => t.dt.name().into(),
            In::Seq(dt, _) => format!("seq_{}", dt.name()),
        }
    }
    pub fn from_json(j: &J) -> In {
        let dt = j["dtype"].as_str().unwrap_or("none");
        let ints = |a: &J| -> Vec<i32> {
            a.as_array()
                .map(|v| v.iter().map(|x| x.as_i64().unwrap_or(0) as i32).collect())
                .unwrap_or_default()
        };
        let shape = |a: &J| -> Vec<usize> { ints(a).into_iter().map(|x| x as usize).collect() };
        if dt == "none" {
            In::None
        } else if let Some(e) = dt.strip_prefix("seq_") {
            let edt = DT::from_name(e).unwrap();
            In::Seq(
                edt,
                j["items"]
                    .as_array()
                    .map(|v| {
                        v.iter()
                            .map(|it| T::typed(edt, &shape(&it["shape"]), &ints(&it["bits"])))
                            .collect()
                    })
                    .unwrap_or_default(),
            )
        } else {
            In::T(T::typed(
                DT::from_name(dt).unwrap(),
                &shape(&j["shape"]),
                &ints(&j["bits"]),
            ))
        }
    }
}

pub fn row_major(shape: &[usize]) -> Vec<usize> {
    let mut s = vec![1usize; shape.len()];
    for d in (0..shape.len().saturating_sub(1)).rev() {
        s[d] = s[d + 1] * shape[d + 1].max(1);
    }
    s
}

// ------------------------------------------------------------- layouts

/// Storage layout of one materialised tensor.
#[derive(Clone, Debug)]
pub struct Lay {
    pub strides: Vec<usize>,
    pub offset: usize,
    /// Length of the backing storage (from element 0, including `offset`).
    pub len: usize,
}

impl Lay {
    pub fn json(&self) -> J {
        json!({"strides": self.strides, "offset": self.offset, "len": self.len})
    }
}

fn min_len(shape: &[usize], strides: &[usize]) -> usize {
    if shape.iter().any(|s| *s == 0) {
        return 0;
    }
    shape
        .iter()
        .zip(strides)
        .map(|(s, st)| (s - 1) * st)
        .sum::<usize>()
        + 1
}

fn is_contig(shape: &[usize], strides: &[usize]) -> bool {
    let mut p = 1;
    for (sz, st) in shape.iter().zip(strides).rev() {
        if *sz == 1 {
            continue;
        }
        if *st != p {
            return false;
        }
        p *= sz;
    }
    true
}

/// Strides of a view obtained by storing the tensor contiguously in the
/// dimension order `order` (outermost first) and permuting back.
fn permuted_strides(shape: &[usize], order: &[usize]) -> Vec<usize> {
    let mut strides = vec![0usize; shape.len()];
    let mut p = 1usize;
    for &d in order.iter().rev() {
        strides[d] = p;
        p *= shape[d].max(1);
    }
    strides
}

/// Layout classes of C14 for *views*. Returns None when the class cannot
/// represent this tensor in a way that differs from the contiguous layout.
pub fn view_layout(t: &T, class: &str, rng: &mut Rng) -> Option<Lay> {
    let shape = &t.shape;
    let n = shape.len();
    let empty = t.numel() == 0;
    match class {
        "contig" => {
            let strides = row_major(shape);
            Some(Lay {
                len: min_len(shape, &strides),
                strides,
                offset: 0,
            })
        }
        "permuted" => {
            if empty || n < 2 {
                return None;
            }
            for _ in 0..8 {
                let mut order: Vec<usize> = (0..n).collect();
                rng.shuffle(&mut order);
                let strides = permuted_strides(shape, &order);
                if !is_contig(shape, &strides) {
                    return Some(Lay {
                        len: min_len(shape, &strides),
                        strides,
                        offset: 0,
                    });
                }
            }
            // deterministic fallback: full reversal
            let order: Vec<usize> = (0..n).rev().collect();
            let strides = permuted_strides(shape, &order);
            if is_contig(shape, &strides) {
                None
            } else {
                Some(Lay {
                    len: min_len(shape, &strides),
                    strides,
                    offset: 0,
                })
            }
        }
        "stepped" => {
            if empty {
                return None;
            }
            // view = big[lead_d .. : step_d] of a contiguous buffer `big`
            let mut steps: Vec<usize> = (0..n).map(|_| 1 + rng.below(3)).collect();
            let leads: Vec<usize> = (0..n).map(|_| rng.below(2)).collect();
            let tails: Vec<usize> = (0..n).map(|_| rng.below(2)).collect();
            if n > 0 && !(0..n).any(|d| shape[d] > 1 && steps[d] > 1) {
                // force a real step on the innermost dim with size > 1 (if any)
                if let Some(d) = (0..n).rev().find(|d| shape[*d] > 1) {
                    steps[d] = 2;
                }
            }
            let big: Vec<usize> = (0..n)
                .map(|d| leads[d] + (shape[d] - 1) * steps[d] + 1 + tails[d])
                .collect();
            let brm = row_major(&big);
            let strides: Vec<usize> = (0..n).map(|d| brm[d] * steps[d]).collect();
            let mut offset: usize = (0..n).map(|d| leads[d] * brm[d]).sum();
            if n == 0 || offset == 0 {
                offset += 1 + rng.below(3);
            }
            let len = offset + min_len(shape, &strides) + rng.below(3);
            Some(Lay {
                strides,
                offset,
                len,
            })
        }
        "broadcast" => {
            if empty {
                return None;
            }
            let cd = t.const_dims();
            if cd.is_empty() {
                return None;
            }
            // stride 0 on a non-empty random subset of the constant dims
            // (all of them half of the time: a tensor constant along a proper subset
            // of its batch dims then becomes a *partial* broadcast view)
            let all = rng.chance(1, 2);
            let mut zero: Vec<usize> = cd.iter().copied().filter(|_| all || rng.chance(1, 2)).collect();
            if zero.is_empty() {
                zero.push(*rng.pick(&cd));
            }
            let reduced: Vec<usize> = (0..n)
                .map(|d| if zero.contains(&d) { 1 } else { shape[d] })
                .collect();
            let rrm = row_major(&reduced);
            let strides: Vec<usize> = (0..n)
                .map(|d| if zero.contains(&d) { 0 } else { rrm[d] })
                .collect();
            Some(Lay {
                len: min_len(shape, &strides),
                strides,
                offset: 0,
            })
        }
        _ => None,
    }
}

fn fill<E: Copy>(logical: &[E], shape: &[usize], lay: &Lay, poison: E) -> Vec<E> {
    let mut store = vec![poison; lay.len];
    let n = shape.len();
    let mut idx = vec![0usize; n];
    for v in logical {
        let off = lay.offset
            + idx
                .iter()
                .zip(&lay.strides)
                .map(|(i, s)| i * s)
                .sum::<usize>();
        store[off] = *v;
        for d in (0..n).rev() {
            idx[d] += 1;
            if idx[d] < shape[d] {
                break;
            }
            idx[d] = 0;
        }
    }
    store
}

pub enum Store {
    F32(Vec<f32>),
    I32(Vec<i32>),
    I8(Vec<i8>),
    U8(Vec<u8>),
}

/// A materialised input: backing storage + layout (a view is borrowed from it).
pub enum Mat {
    None,
    View {
        store: Store,
        shape: Vec<usize>,
        lay: Lay,
    },
    Seq(Sequence),
}

fn conv_f32(v: &[i32]) -> Vec<f32> {
    v.iter().map(|x| f32::from_bits(*x as u32)).collect()
}

pub fn seq_value(dt: DT, items: &[T]) -> Sequence {
    match dt {
        DT::F32 => items
            .iter()
            .map(|t| Tensor::from_data(&t.shape, conv_f32(&t.vals)))
            .collect::<Vec<_>>()
            .into(),
        DT::I32 => items
            .iter()
            .map(|t| Tensor::from_data(&t.shape, t.vals.clone()))
            .collect::<Vec<_>>()
            .into(),
        DT::I8 => items
            .iter()
            .map(|t| {
                Tensor::from_data(&t.shape, t.vals.iter().map(|x| *x as i8).collect::<Vec<_>>())
            })
            .collect::<Vec<_>>()
            .into(),
        DT::U8 => items
            .iter()
            .map(|t| {
                Tensor::from_data(&t.shape, t.vals.iter().map(|x| *x as u8).collect::<Vec<_>>())
            })
            .collect::<Vec<_>>()
            .into(),
    }
}

impl Mat {
    pub fn new(inp: &In, lay: Option<&Lay>) -> Mat {
        match inp {
            In::None => Mat::None,
            In::Seq(dt, items) => Mat::Seq(seq_value(*dt, items)),
            In::T(t) => {
                let contig;
                let lay = match lay {
                    Some(l) => l,
                    None => {
                        let strides = row_major(&t.shape);
                        contig = Lay {
                            len: min_len(&t.shape, &strides),
                            strides,
                            offset: 0,
                        };
                        &contig
                    }
                };
                let store = match t.dt {
                    DT::F32 => Store::F32(fill(&conv_f32(&t.vals), &t.shape, lay, 1234.5678f32)),
                    DT::I32 => Store::I32(fill(&t.vals, &t.shape, lay, 7777)),
                    DT::I8 => Store::I8(fill(
                        &t.vals.iter().map(|x| *x as i8).collect::<Vec<_>>(),
                        &t.shape,
                        lay,
                        77,
                    )),
                    DT::U8 => Store::U8(fill(
                        &t.vals.iter().map(|x| *x as u8).collect::<Vec<_>>(),
                        &t.shape,
                        lay,
                        177,
                    )),
                };
                Mat::View {
                    store,
                    shape: t.shape.clone(),
                    lay: lay.clone(),
                }
            }
        }
    }

    pub fn view(&self) -> Option<ValueView<'_>> {
        match self {
            Mat::None => None,
            Mat::Seq(s) => Some(ValueView::Sequence(s)),
            Mat::View { store, shape, lay } => {
                fn mk<'a, E>(data: &'a [E], shape: &[usize], lay: &Lay) -> TensorView<'a, E> {
                    TensorView::from_slice_with_strides(shape, &data[lay.offset..], &lay.strides[..])
                        .expect("valid view layout")
                }
                Some(match store {
                    Store::F32(d) => ValueView::FloatTensor(mk(d, shape, lay)),
                    Store::I32(d) => ValueView::Int32Tensor(mk(d, shape, lay)),
                    Store::I8(d) => ValueView::Int8Tensor(mk(d, shape, lay)),
                    Store::U8(d) => ValueView::UInt8Tensor(mk(d, shape, lay)),
                })
            }
        }
    }
}

/// Owned-value classes of C13. `axis_hint` is the dimension along which
/// capacity is reserved for the "reserved" class; `spare` the number of spare
/// elements / extra rows.
pub fn owned_value(
    inp: &In,
    class: &str,
    rng: &mut Rng,
    axis_hint: Option<usize>,
    spare: usize,
) -> Option<(Value, J)> {
    let t = match inp {
        In::None => return None,
        In::Seq(dt, items) => {
            if class != "exact" {
                return None;
            }
            return Some((
                Value::Sequence(seq_value(*dt, items)),
                json!({"strides": [], "offset": 0, "len": 0, "cap": 0}),
            ));
        }
        In::T(t) => t,
    };
    let n = t.shape.len();
    fn build<E: Copy + 'static>(
        logical: Vec<E>,
        t: &T,
        class: &str,
        rng: &mut Rng,
        axis_hint: Option<usize>,
        spare: usize,
        poison: E,
    ) -> Option<(Tensor<E>, J)> {
        let n = t.shape.len();
        let shape = &t.shape;
        match class {
            "exact" => {
                let mut v = Vec::with_capacity(logical.len());
                v.extend_from_slice(&logical);
                v.shrink_to_fit();
                let cap = v.capacity();
                let strides = row_major(shape);
                Some((
                    Tensor::from_data(shape, v),
                    json!({"strides": strides, "offset": 0, "len": logical.len(), "cap": cap}),
                ))
            }
            "spare" => {
                let mut v = Vec::with_capacity(logical.len() + spare.max(1));
                v.extend_from_slice(&logical);
                let cap = v.capacity();
                let strides = row_major(shape);
                Some((
                    Tensor::from_data(shape, v),
                    json!({"strides": strides, "offset": 0, "len": logical.len(), "cap": cap}),
                ))
            }
            "permuted" => {
                let lay = view_layout(t, "permuted", rng)?;
                let data = fill(&logical, shape, &lay, poison);
                let len = data.len();
                let tensor =
                    Tensor::from_data_with_strides(shape, data, &lay.strides[..]).ok()?;
                Some((
                    tensor,
                    json!({"strides": lay.strides, "offset": 0, "len": len, "cap": len}),
                ))
            }
            "gapped" => {
                if logical.is_empty() || n == 0 {
                    return None;
                }
                // padded strides without offset (an owned tensor starts at element 0)
                let mut steps: Vec<usize> = (0..n).map(|_| 1 + rng.below(2)).collect();
                let tails: Vec<usize> = (0..n).map(|_| rng.below(2)).collect();
                if !(0..n).any(|d| shape[d] > 1 && (steps[d] > 1 || tails[d] > 0)) {
                    if let Some(d) = (0..n).rev().find(|d| shape[*d] > 1) {
                        steps[d] = 2;
                    } else {
                        return None;
                    }
                }
                let big: Vec<usize> = (0..n)
                    .map(|d| (shape[d] - 1) * steps[d] + 1 + tails[d])
                    .collect();
                let brm = row_major(&big);
                let strides: Vec<usize> = (0..n).map(|d| brm[d] * steps[d]).collect();
                if is_contig(shape, &strides) {
                    return None;
                }
                let lay = Lay {
                    len: min_len(shape, &strides) + rng.below(3),
                    strides,
                    offset: 0,
                };
                let data = fill(&logical, shape, &lay, poison);
                let len = data.len();
                let tensor =
                    Tensor::from_data_with_strides(shape, data, &lay.strides[..]).ok()?;
                Some((
                    tensor,
                    json!({"strides": lay.strides, "offset": 0, "len": len, "cap": len}),
                ))
            }
            "reserved" => {
                // Tensor::with_capacity(full_shape, axis) + append: the public way to
                // reserve room for growth along `axis`.
                if n == 0 {
                    return None;
                }
                let axis = axis_hint.filter(|a| *a < n).unwrap_or_else(|| rng.below(n));
                let mut full = shape.clone();
                full[axis] += spare.max(1);
                if full.iter().any(|s| *s == 0) {
                    return None;
                }
                let mut tensor = Tensor::<E>::with_capacity(&full, axis);
                let src = Tensor::from_data(shape, logical.clone());
                tensor.append(axis, &src).ok()?;
                let strides: Vec<usize> = tensor.strides().to_vec();
                Some((
                    tensor,
                    json!({"strides": strides, "offset": 0, "len": 0, "cap": full.iter().product::<usize>()}),
                ))
            }
            _ => None,
        }
    }
    let _ = n;
    Some(match t.dt {
        DT::F32 => {
            let (x, j) = build(conv_f32(&t.vals), t, class, rng, axis_hint, spare, 1234.5678f32)?;
            (x.into(), j)
        }
        DT::I32 => {
            let (x, j) = build(t.vals.clone(), t, class, rng, axis_hint, spare, 7777i32)?;
            (x.into(), j)
        }
        DT::I8 => {
            let (x, j) = build(
                t.vals.iter().map(|v| *v as i8).collect(),
                t,
                class,
                rng,
                axis_hint,
                spare,
                77i8,
            )?;
            (x.into(), j)
        }
        DT::U8 => {
            let (x, j) = build(
                t.vals.iter().map(|v| *v as u8).collect(),
                t,
                class,
                rng,
                axis_hint,
                spare,
                177u8,
            )?;
            (x.into(), j)
        }
    })
}

// ------------------------------------------------------------ running

pub fn value_json(v: &Value) -> J {
    fn tj<E: Copy>(dt: &str, t: &Tensor<E>, conv: impl Fn(E) -> i32) -> J {
        json!({"dtype": dt, "shape": t.shape().to_vec(),
               "bits": t.iter().map(|x| conv(*x)).collect::<Vec<i32>>(), "items": []})
    }
    fn items<E: Copy>(ts: &[Tensor<E>], conv: impl Fn(E) -> i32) -> Vec<J> {
        ts.iter()
            .map(|t| json!({"shape": t.shape().to_vec(), "bits": t.iter().map(|x| conv(*x)).collect::<Vec<i32>>()}))
            .collect()
    }
    match v {
        Value::FloatTensor(t) => tj("f32", t, |x| x.to_bits() as i32),
        Value::Int32Tensor(t) => tj("i32", t, |x| x),
        Value::Int8Tensor(t) => tj("i8", t, |x| x as i32),
        Value::UInt8Tensor(t) => tj("u8", t, |x| x as i32),
        Value::Sequence(s) => {
            let (dt, it) = match s {
                Sequence::Float(ts) => ("seq_f32", items(ts, |x| x.to_bits() as i32)),
                Sequence::Int32(ts) => ("seq_i32", items(ts, |x| x)),
                Sequence::Int8(ts) => ("seq_i8", items(ts, |x| x as i32)),
                Sequence::UInt8(ts) => ("seq_u8", items(ts, |x| x as i32)),
                _ => ("seq_unknown", vec![]),
            };
            json!({"dtype": dt, "shape": [], "bits": [], "items": it})
        }
        _ => json!({"dtype": "unknown", "shape": [], "bits": [], "items": []}),
    }
}

pub struct Outcome {
    /// "ok" | "err" | "panic"
    pub kind: &'static str,
    pub err: String,
    pub outputs: Vec<Value>,
}

impl Outcome {
    pub fn ok(&self) -> bool {
        self.kind == "ok"
    }
    pub fn outputs_json(&self) -> Vec<J> {
        self.outputs.iter().map(value_json).collect()
    }
    pub fn out_types(&self) -> Vec<String> {
        self.outputs.iter().map(|v| vt_name(v.dtype())).collect()
    }
}

fn short(s: String) -> String {
    s.chars().take(160).collect()
}

/// `Operator::run` with the given views (None = absent input / placeholder).
pub fn run_normal(op: &dyn Operator, views: &[Option<ValueView>], n_out: usize) -> Outcome {
    let r = vcommon::guarded(|| {
        let pool = BufferPool::new();
        let inputs = InputList::from_optional(views);
        let ctx = OpRunContext::new(&pool, &inputs, OutputMask::all_used(n_out));
        op.run(&ctx)
    });
    finish(r)
}

/// `Operator::run_in_place` with the executor's calling convention: the taken
/// inputs are passed as owned values with their positions, and `views` has a
/// `None` placeholder at each taken position (src/graph.rs run_plan).
pub fn run_in_place(
    op: &dyn Operator,
    taken: Vec<(usize, Value)>,
    views: &[Option<ValueView>],
    n_out: usize,
) -> Outcome {
    let r = vcommon::guarded(move || {
        let pool = BufferPool::new();
        let inputs = InputList::from_optional(views);
        let ctx = OpRunContext::new(&pool, &inputs, OutputMask::all_used(n_out));
        let in_place = InPlaceInputs::from_iter(taken);
        op.run_in_place(in_place, &ctx)
    });
    finish(r)
}

fn finish(
    r: Result<Result<rten::verif::OutputList, rten::verif::OpError>, String>,
) -> Outcome {
    match r {
        Ok(Ok(outs)) => Outcome {
            kind: "ok",
            err: String::new(),
            outputs: outs.into_iter().collect(),
        },
        Ok(Err(e)) => Outcome {
            kind: "err",
            err: short(format!("{e}")),
            outputs: vec![],
        },
        Err(p) => Outcome {
            kind: "panic",
            err: short(p),
            outputs: vec![],
        },
    }
}

// ------------------------------------------------------------ numeric projections

/// True when every f32 input element is an integer with |v| <= 16 (sums of a
/// few hundred products of such values are exact in f32).
pub fn exact_inputs(inputs: &[In]) -> bool {
    let ok = |t: &T| {
        t.dt != DT::F32
            || t.vals.iter().all(|b| {
                let f = f32::from_bits(*b as u32);
                f.is_finite() && f.fract() == 0.0 && f.abs() <= 16.0
            })
    };
    inputs.iter().all(|i| match i {
        In::None => true,
        In::T(t) => ok(t),
        In::Seq(_, items) => items.iter().all(ok),
    })
}

/// Distance between the outputs of a variant run and the reference run, as an
/// integer: ceil(2^20 * max|a-b| / max(max|ref|, 2^-10)) over all f32 outputs.
/// -1: not comparable (a run failed, or count/dtype/shape differ);
/// 2^30: a non-float element differs or a non-finite float differs in bits.
pub fn dist_q(reference: &Outcome, r: &Outcome) -> i64 {
    if !reference.ok() || !r.ok() || reference.outputs.len() != r.outputs.len() {
        return -1;
    }
    const BIG: i64 = 1 << 30;
    let mut maxdiff = 0f64;
    let mut maxref = 0f64;
    let mut big = false;
    for (a, b) in reference.outputs.iter().zip(&r.outputs) {
        match (a, b) {
            (Value::FloatTensor(x), Value::FloatTensor(y)) => {
                if x.shape() != y.shape() {
                    return -1;
                }
                for (p, q) in x.iter().zip(y.iter()) {
                    if p.to_bits() == q.to_bits() {
                        if p.is_finite() {
                            maxref = maxref.max(p.abs() as f64);
                        }
                        continue;
                    }
                    if p.is_nan() && q.is_nan() {
                        continue;
                    }
                    if !p.is_finite() || !q.is_finite() {
                        big = true;
                        continue;
                    }
                    maxref = maxref.max(p.abs() as f64);
                    maxdiff = maxdiff.max((*p as f64 - *q as f64).abs());
                }
            }
            (a, b) => {
                if a.dtype() != b.dtype() {
                    return -1;
                }
                if value_json(a) != value_json(b) {
                    if value_json(a)["shape"] != value_json(b)["shape"] {
                        return -1;
                    }
                    big = true;
                }
            }
        }
    }
    if big {
        return BIG;
    }
    let scale = maxref.max(1.0 / 1024.0);
    let q = (maxdiff / scale * (1u64 << 20) as f64).ceil();
    if q >= BIG as f64 { BIG } else { q as i64 }
}

// ------------------------------------------------------------ loading operators

/// Build a single-operator ONNX model, load it with the real loader (no
/// optimisation) and return the operator object of its only operator node.
pub fn load_op(node: &onnx::Node) -> Result<OpArc, String> {
    let mut g = onnx::Graph::default();
    let mut node = node.clone();
    node.name = "op".into();
    for (i, name) in node.inputs.iter().enumerate() {
        if !name.is_empty() {
            let _ = i;
            g.inputs.push(onnx::ValueInfo::new(name, onnx::FLOAT, None));
        }
    }
    for name in node.outputs.iter() {
        if !name.is_empty() {
            g.outputs.push(onnx::ValueInfo::new(name, onnx::FLOAT, None));
        }
    }
    g.nodes.push(node);
    let bytes = g.to_model();
    let mut opts = rten::ModelOptions::with_all_ops();
    opts.enable_optimization(false);
    let model = opts.load(bytes).map_err(|e| format!("{e}"))?;
    let graph = model.verif_graph();
    let mut found = None;
    for (_id, n) in graph.iter() {
        if let Node::Operator(opn) = n {
            if found.is_some() {
                return Err("more than one operator node".into());
            }
            found = Some(opn.clone_operator());
        }
    }
    found.ok_or_else(|| "no operator node".to_string())
}

pub fn node(op: &str, domain: &str, n_in: usize, n_out: usize) -> onnx::Node {
    let ins: Vec<String> = (0..n_in).map(|i| format!("i{i}")).collect();
    let outs: Vec<String> = (0..n_out).map(|i| format!("o{i}")).collect();
    let ins_r: Vec<&str> = ins.iter().map(|s| s.as_str()).collect();
    let outs_r: Vec<&str> = outs.iter().map(|s| s.as_str()).collect();
    let mut n = onnx::Node::new(op, &ins_r, &outs_r);
    n.domain = domain.to_string();
    n
}

// ------------------------------------------------------------ entry point

pub fn main() {
    vcommon::quiet_panics();
    let mode = std::env::args().nth(2).unwrap_or_default();
    let threads = vcommon::arg_usize("--threads", 4);
    let pool = rten::ThreadPool::with_num_threads(threads);
    let code = pool.run(|| match mode.as_str() {
        "list" => {
            catalogue::list();
            0
        }
        "smoke" => {
            catalogue::smoke();
            0
        }
        "inplace" => inplace::main(),
        "layout" => layout::main(),
        "types" => types::main(),
        _ => {
            eprintln!("usage: vh-ops relational <list|inplace|layout|types> --out FILE [--cases N] [--only KEY] [--threads N]");
            2
        }
    });
    std::process::exit(code);
}
