//! relational engine (see main.rs). Entry point: `vh-ops relational [options]`; sub-modes via further arguments.
pub fn main() {
    eprintln!("vh-ops relational: not implemented yet");
    std::process::exit(2);
}
