//! vh-opt (C01): generates small ONNX models (fusion templates with perturbations, random DAGs over
//! the exact integer subset, shape-arithmetic chains), loads each under the six configurations
//! {optimize off,on} x {shape inference off,on,strict}, runs it on 2-3 conforming input sets and
//! writes NDJSON: per run a `case` record (complete model description + inputs) followed by a `ret`
//! record (per-configuration outcome, outputs, operators left in the loaded graph). Nothing is
//! judged here; `specs/opt/Trace_Optimize.tla` decides.
//!
//! vh-opt record --out T.ndjson [--per N] [--fams a,b] [--first-id N] [--skip N]
//! vh-opt replay --out T.ndjson --cases-file F.jsonl     (logged `case` records or TLC candidates)
//! vh-opt list
mod vh_opt;

use vcommon::{Rng, Trace, Value as J, arg, arg_usize, json, quiet_panics, read_json_lines, seed_from_env};
use vh_opt::gen_dag::{dag, shape_arith};
use vh_opt::gen_fusions::{FAMILIES, Fam};
use vh_opt::model::CaseD;
use vh_opt::near_miss::{near_misses, select};
use vh_opt::run::{load_all, run_case};

fn fnv(s: &str) -> u64 {
    let mut h: u64 = 0xcbf29ce484222325;
    for b in s.bytes() {
        h ^= b as u64;
        h = h.wrapping_mul(0x100000001b3);
    }
    h
}

fn families() -> Vec<(&'static str, Fam, usize)> {
    // (name, generator, weight)
    let mut v: Vec<(&'static str, Fam, usize)> = FAMILIES.iter().map(|(n, f)| (*n, *f, 1)).collect();
    v.push(("dag", dag, 4));
    v.push(("shape_arith", shape_arith, 3));
    v
}

fn emit_case(tr: &mut Trace, id: &mut usize, c: &CaseD, prog: usize) {
    // the case record of the first run is written before anything of the model is loaded
    let mut loaded = None;
    for r in 0..c.runs.len() {
        let mut j = c.json(r);
        let m = j.as_object_mut().unwrap();
        m.insert("ev".into(), json!("case"));
        m.insert("id".into(), json!(*id));
        m.insert("prog".into(), json!(prog));
        tr.emit(j);
        tr.flush();
        let ls = loaded.get_or_insert_with(|| load_all(c));
        let mut ret = run_case(c, ls, r);
        ret.as_object_mut().unwrap().insert("id".into(), json!(*id));
        tr.emit(ret);
        *id += 1;
    }
}

fn main() {
    if std::env::var_os("VH_LOUD").is_none() {
        quiet_panics();
    }
    let cmd = std::env::args().nth(1).unwrap_or_default();
    match cmd.as_str() {
        "list" => {
            println!("{}", families().iter().map(|f| f.0).collect::<Vec<_>>().join(","));
        }
        "record" => {
            let out = arg("--out").expect("--out");
            let per = arg_usize("--per", 10);
            // near misses are derived from the first `--nm` programs of every template family; all of
            // them with --nm-all, otherwise a sample (every swap / operator substitution + one per kind)
            let nm = arg_usize("--nm", 0);
            let nm_all = std::env::args().any(|a| a == "--nm-all");
            let skip = arg_usize("--skip", 0);
            let only: Option<Vec<String>> = arg("--fams").map(|s| s.split(',').map(|x| x.to_string()).collect());
            let mut id = arg_usize("--first-id", 1);
            let mut tr = Trace::create(&out);
            let seed = seed_from_env();
            let mut done = 0usize;
            for (name, f, weight) in families() {
                if let Some(o) = &only {
                    if !o.iter().any(|x| x == name) {
                        continue;
                    }
                }
                // every (family, k) has its own RNG stream: a run can be resumed with --skip
                let template = weight == 1;
                for k in 0..per * weight {
                    let mut r = Rng::new(seed ^ fnv(name) ^ (k as u64).wrapping_mul(0x9E3779B97F4A7C15));
                    let c = f(&mut r, k);
                    done += 1;
                    if done > skip {
                        emit_case(&mut tr, &mut id, &c, done);
                    }
                    // (a base whose own perturbation is a registered finding has no clean neighbourhood)
                    if template && k < nm && c.variant != "keep0" {
                        for m in select(near_misses(&c), !nm_all, k) {
                            done += 1;
                            if done > skip {
                                emit_case(&mut tr, &mut id, &m, done);
                            }
                        }
                    }
                }
            }
            tr.flush();
        }
        "replay" => {
            let out = arg("--out").expect("--out");
            let file = arg("--cases-file").expect("--cases-file");
            let mut id = arg_usize("--first-id", 1);
            let mut tr = Trace::create(&out);
            let cases: Vec<J> = read_json_lines(&file);
            let skip = arg_usize("--skip", 0);
            for (n, j) in cases.iter().enumerate() {
                if n < skip {
                    continue;
                }
                let c = CaseD::from_json(j);
                emit_case(&mut tr, &mut id, &c, n + 1);
            }
            tr.flush();
        }
        _ => {
            eprintln!("usage: vh-opt <record|replay|list> ...");
            std::process::exit(2);
        }
    }
}
