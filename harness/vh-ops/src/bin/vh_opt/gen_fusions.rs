//! (i) Fusion / rewrite templates with perturbations. One function per family; `k` is a running
//! counter used to cycle systematically through the primary perturbation dimension, everything
//! else is drawn from the seeded RNG.
//!
//! Each case is the canonical pattern of a fusion with (mostly) ONE perturbation; the perturbation
//! class is the case's `variant` string, which the trace spec puts into the signature of a failing
//! case as `pclass` ("pattern class"). Perturbations by a single-element constant of rank k are
//! named `const_r<k>` in every family (`const_n2`: a 2-element constant, which no scalar pattern
//! may match).
//!
//! Families follow /repo/src/optimize.rs (pass order) and /repo/src/optimize/fusions.rs.

use vcommon::Rng;
use vcommon::onnx::{BOOL, FLOAT, INT8, INT32, INT64, UINT8};

use super::build::{B, Vals, case, fx, shape_tag, sym};
use super::model::{AV, CaseD, DimD, GT, ModelD, NodeD};

/// Constant shapes every single-element-constant perturbation cycles through.
const CSHAPES: [&[usize]; 5] = [&[], &[1], &[1, 1], &[2], &[1, 1, 1]];

fn ctag(s: &[usize]) -> String {
    let n: usize = s.iter().product();
    if n == 1 { format!("const_r{}", s.len()) } else { format!("const_n{}", shape_tag(s)) }
}

const XSHAPES: [&[usize]; 7] = [&[2], &[1, 2], &[2, 1], &[3], &[2, 2], &[], &[2, 3]];

/// IdentityFusion: Identity(x), x+0, 0+x, x-0, x*1, 1*x, x/1 and near misses (0-x, 1/x, x+2, int).
pub fn identity(r: &mut Rng, k: usize) -> CaseD {
    let ops = ["Add", "Sub", "Mul", "Div", "Identity"];
    let op = ops[(k / CSHAPES.len()) % ops.len()];
    let cshape = CSHAPES[k % CSHAPES.len()];
    let xshape = *r.pick(&XSHAPES);
    let swap = r.chance(1, 3);
    let neutral: f32 = if op == "Add" || op == "Sub" { 0.0 } else { 1.0 };
    // secondary perturbations only with the canonical rank-0 constant
    let (cval, int, vtag) = if cshape.is_empty() {
        match r.below(6) {
            0 => (2.0, false, "nonneutral"),
            1 if neutral == 0.0 => (-0.0, false, "negzero"),
            2 => (neutral, true, "int"),
            _ => (neutral, false, ""),
        }
    } else {
        (neutral, false, "")
    };
    let mut b = B::new();
    let ot = if int { INT32 } else { FLOAT };
    // (1 / x with a one-element x of rank >= 1 is reciprocal/x_one_element: no symbolic dim for Div)
    let x0 = b.input_s(r, "x", ot, xshape, op != "Div");
    // x as a graph input, or as a computed value (shape known only through inference)
    let via = r.chance(1, 3);
    let x = if via { b.op("Neg", &[&x0]) } else { x0.clone() };
    let y = if op == "Identity" {
        b.op("Identity", &[&x])
    } else {
        let c = if int { b.c(GT::i(cshape, INT32, vec![cval as i64; cshape.iter().product()])) } else { b.cs(cshape, cval) };
        b.bin(op, &x, &c, swap)
    };
    // the result is a graph output directly, or feeds another operator, or both
    let mode = r.below(3);
    if mode != 1 {
        b.out(&y);
    }
    if mode != 0 {
        let z = b.op("Neg", &[&y]);
        b.out(&z);
    }
    let variant = if op == "Identity" {
        "identity_op".to_string()
    } else if !vtag.is_empty() {
        vtag.to_string()
    } else if swap && (op == "Sub" || op == "Div") && cshape.is_empty() {
        "c_minus_x".to_string() // 0 - x, 1 / x: must not be removed (1 / x becomes Reciprocal)
    } else {
        ctag(cshape)
    };
    case("identity", variant, "std", b, r, 2, Vals::Int(-3, 3))
}

/// x + (c - c), x * (c / c): identities that only appear after constant propagation (late pass).
pub fn identity_late(r: &mut Rng, k: usize) -> CaseD {
    let cshape = CSHAPES[k % CSHAPES.len()];
    let xshape = *r.pick(&XSHAPES);
    let mul = r.chance(1, 2);
    let mut b = B::new();
    let x = b.input_s(r, "x", FLOAT, xshape, true);
    let c1 = b.cs(cshape, 2.0);
    let z = b.op(if mul { "Div" } else { "Sub" }, &[&c1, &c1]);
    let swap = r.chance(1, 2);
    let y = b.bin(if mul { "Mul" } else { "Add" }, &x, &z, swap);
    let w = b.op("Neg", &[&y]);
    b.out(&w);
    if r.chance(1, 2) {
        b.out(&y);
    }
    case("identity_late", ctag(cshape), "std", b, r, 2, Vals::Int(-3, 3))
}

/// CastElimination: Cast to the same / another element type, input dtype declared or inferred.
pub fn cast(r: &mut Rng, _k: usize) -> CaseD {
    let types = [FLOAT, INT32, INT64, UINT8, INT8, BOOL];
    let from = *r.pick(&types);
    let to = if r.chance(1, 2) { from } else { *r.pick(&types) };
    let mut b = B::new();
    let shape: &[usize] = *r.pick(&[&[3usize][..], &[2, 2], &[]]);
    let x0 = b.input_s(r, "x", from, shape, true);
    let via = r.chance(1, 2) && from != BOOL && from != UINT8;
    let x = if via { b.op("Neg", &[&x0]) } else { x0 };
    let y = b.opa("Cast", &[&x], vec![("to", AV::Int(to as i64))]);
    b.out(&y);
    if r.chance(1, 2) {
        let z = b.op("Identity", &[&y]);
        b.out(&z);
    }
    let name = |t: i32| match t {
        FLOAT => "f32",
        INT32 => "i32",
        INT64 => "i64",
        UINT8 => "u8",
        INT8 => "i8",
        _ => "bool",
    };
    case("cast", format!("{}_to_{}", name(from), name(to)), "std", b, r, 2, Vals::Int(0, 3))
}

/// The value TLC can still read for "slice to the end" (i64::MAX does not fit a trace integer).
pub const OPEN_END: i64 = i32::MAX as i64;

/// ShapeSliceToConstant: Slice(Shape(x), starts, ends[, axes[, steps]]).
pub fn shape_slice(r: &mut Rng, _k: usize) -> CaseD {
    let rank = 1 + r.below(4);
    let mut d = Vec::new();
    let mut anysym = false;
    for i in 0..rank {
        if r.chance(1, 4) {
            d.push(sym(["N", "M"][i % 2]));
            anysym = true;
        } else {
            d.push(DimD::Fixed(1 + r.below(3) as i64));
        }
    }
    let mut b = B::new();
    let x = b.input("x", FLOAT, Some(d));
    let via = r.chance(1, 3);
    let xs = if via { b.op("Relu", &[&x]) } else { x.clone() };
    let sh = b.op("Shape", &[&xs]);
    let (s, e) = (r.range(-5, 5), r.range(-5, 6));
    let e = if r.chance(1, 6) { OPEN_END } else { e };
    let st = b.ci(&[s]);
    let en = b.ci(&[e]);
    let extra = r.below(4);
    let sl = match extra {
        0 => {
            let ax = b.ci(&[0]);
            b.op("Slice", &[&sh, &st, &en, &ax])
        }
        1 => {
            let ax = b.ci(&[0]);
            let sp = b.ci(&[*r.pick(&[1i64, 2, -1])]);
            b.op("Slice", &[&sh, &st, &en, &ax, &sp])
        }
        _ => b.op("Slice", &[&sh, &st, &en]),
    };
    // the slice is a graph output itself, or only feeds another operator
    let direct = r.chance(1, 2);
    if direct {
        b.out(&sl);
    }
    let f = b.opa("ConstantOfShape", &[&sl], vec![("value", AV::Tens(GT::i(&[1], INT64, vec![7])))]);
    b.out(&f);
    let variant = format!("{}{}{}", ["axes", "axes_steps", "plain", "plain"][extra], if anysym { "_sym" } else { "" }, if direct { "_output" } else { "" });
    case("shape_slice", variant, "std", b, r, 2, Vals::Int(-3, 3))
}

/// ComputeShapeFusion: Shape(t) with t's shape known through inference in terms of input symbols.
pub fn compute_shape(r: &mut Rng, _k: usize) -> CaseD {
    let mut b = B::new();
    let two = r.chance(1, 2);
    let x = b.input_f("x", vec![sym("N"), DimD::Fixed(1 + r.below(3) as i64)]);
    let t = b.op("Sigmoid", &[&x]);
    let s = b.op("Shape", &[&t]);
    let y = b.op("Mul", &[&x, &t]);
    b.out(&y);
    let mode = r.below(4);
    match mode {
        0 => b.out(&s),
        1 => {
            let idx = b.c(GT::i64_scalar(*r.pick(&[0i64, 1, -1, -2])));
            let g = b.opa("Gather", &[&s, &idx], vec![("axis", AV::Int(0))]);
            b.out(&g);
        }
        2 => {
            let c = b.opa("ConstantOfShape", &[&s], vec![("value", AV::Tens(GT::f(&[1], vec![1.0])))]);
            let z = b.op("Add", &[&y, &c]);
            b.out(&z);
        }
        _ => {
            let z = b.op("Reshape", &[&y, &s]);
            b.out(&z);
        }
    }
    if two {
        // a second input sharing the symbol, whose shape is also taken
        let w = b.input_f("w", vec![DimD::Fixed(2), sym("N"), sym("M")]);
        let t2 = b.op("Relu", &[&w]);
        let s2 = b.op("Shape", &[&t2]);
        let cc = b.opa("Concat", &[&s, &s2], vec![("axis", AV::Int(0))]);
        b.out(&cc);
    }
    case("compute_shape", format!("m{mode}{}", if two { "_two" } else { "" }), "std", b, r, 3, Vals::Frac)
}

/// ReciprocalFusion: 1 / x.
pub fn reciprocal(r: &mut Rng, k: usize) -> CaseD {
    let cshape = CSHAPES[k % CSHAPES.len()];
    let (cv, vt, tol) = if cshape.is_empty() {
        match r.below(7) {
            0 => (1.0 + 5e-5, "near", "loose"),
            1 => (2.0, "nonneutral", "std"),
            2 => (1.0 + 2e-4, "far", "std"),
            3 => (1.0, "x_div_c", "std"),
            4 => (1.0, "x_one_element", "std"),
            _ => (1.0, "", "std"),
        }
    } else {
        (1.0, "", "std")
    };
    // x with exactly one element and rank 2: the unoptimised Div itself returns rank 0 (C15 finding)
    let one_elem = vt == "x_one_element";
    let xshape: &[usize] = if one_elem { &[1, 1] } else { *r.pick(&XSHAPES) };
    let mut b = B::new();
    let x = b.input_s(r, "x", FLOAT, xshape, false);
    let c = b.cs(cshape, cv);
    let y = if vt == "x_div_c" { b.op("Div", &[&x, &c]) } else { b.op("Div", &[&c, &x]) };
    b.out(&y);
    case("reciprocal", if vt.is_empty() { ctag(cshape) } else { vt.to_string() }, tol, b, r, 2, Vals::PosFrac)
}

/// ReduceMeanAxesFusion: ReduceMean(x, axes) with constant axes.
pub fn reduce_mean_axes(r: &mut Rng, _k: usize) -> CaseD {
    let shape: &[usize] = *r.pick(&[&[2usize, 3][..], &[2, 2, 2], &[4], &[1, 3]]);
    let rank = shape.len() as i64;
    let axes: Vec<i64> = match r.below(5) {
        0 => vec![],
        1 => vec![0],
        2 => vec![-1],
        3 if rank >= 2 => vec![0, 1],
        _ => vec![rank - 1],
    };
    let keep = r.below(3);
    let noop = r.below(3);
    let mut attrs = vec![];
    if keep < 2 {
        attrs.push(("keepdims", AV::Int(keep as i64)));
    }
    if noop < 2 {
        attrs.push(("noop_with_empty_axes", AV::Int(noop as i64)));
    }
    let mut b = B::new();
    let x = b.input_s(r, "x", FLOAT, shape, true);
    let ax = b.ci(&axes);
    let y = b.opa("ReduceMean", &[&x, &ax], attrs);
    b.out(&y);
    let variant = if axes.is_empty() { format!("empty_axes_noop{}", if noop == 1 { 1 } else { 0 }) } else { "axes".to_string() };
    case("reduce_mean_axes", variant, "std", b, r, 2, Vals::Int(-4, 4))
}

/// SiluFusion / SwishFusion.
pub fn silu_swish(r: &mut Rng, k: usize) -> CaseD {
    let xshape: &[usize] = *r.pick(&[&[3usize][..], &[2, 3], &[1, 2], &[]]);
    let mut b = B::new();
    let x = b.input_s(r, "x", FLOAT, xshape, true);
    let swish = k % 3 != 0;
    let cshape = CSHAPES[(k / 3) % CSHAPES.len()];
    let variant;
    let s = if swish {
        let av = *r.pick(&[1.0f32, 2.0, 0.5, 1.702]);
        let a = b.cs(cshape, av);
        let swap = r.chance(1, 2);
        let ax = b.bin("Mul", &a, &x, swap);
        variant = format!("swish/{}", ctag(cshape));
        b.op("Sigmoid", &[&ax])
    } else {
        variant = "silu/canonical".to_string();
        b.op("Sigmoid", &[&x])
    };
    let swap = r.chance(1, 2);
    let y = b.bin("Mul", &x, &s, swap);
    b.out(&y);
    case("silu_swish", variant, "std", b, r, 2, Vals::Frac)
}

/// GeluFusion and ApproxGeluFusion with regrouped chains and constant shape / value perturbations.
pub fn gelu(r: &mut Rng, k: usize) -> CaseD {
    let approx = k % 2 == 1;
    let cshape = CSHAPES[(k / 2) % CSHAPES.len()];
    let which = r.below(4); // which constant gets the shape perturbation
    let near = cshape.is_empty() && r.chance(1, 5);
    let xshape: &[usize] = *r.pick(&[&[3usize][..], &[2, 3], &[2]]);
    let mut b = B::new();
    let x = b.input_s(r, "x", FLOAT, xshape, true);
    let mut cnum = 0;
    let mut cst = |b: &mut B, v: f32| {
        cnum += 1;
        let v = if near && cnum == 1 { v + 5e-5 } else { v };
        if cnum - 1 == which { b.cs(cshape, v) } else { b.cs(&[], v) }
    };
    let grouping = r.below(3);
    let y = if !approx {
        let sqrt2 = 2.0f32.sqrt();
        let half = cst(&mut b, 0.5);
        let xs = if r.chance(1, 2) {
            let c = cst(&mut b, sqrt2);
            b.op("Div", &[&x, &c])
        } else {
            let c = cst(&mut b, 1.0 / sqrt2);
            let sw = r.chance(1, 2);
            b.bin("Mul", &x, &c, sw)
        };
        let e = b.op("Erf", &[&xs]);
        let one = cst(&mut b, 1.0);
        let sw = r.chance(1, 2);
        let e1 = b.bin("Add", &e, &one, sw);
        match grouping {
            0 => {
                let t = b.op("Mul", &[&x, &e1]);
                b.op("Mul", &[&t, &half])
            }
            1 => {
                let t = b.op("Mul", &[&e1, &half]);
                b.op("Mul", &[&x, &t])
            }
            _ => {
                let t = b.op("Mul", &[&x, &half]);
                b.op("Mul", &[&t, &e1])
            }
        }
    } else {
        let half = cst(&mut b, 0.5);
        let three = cst(&mut b, 3.0);
        let p = b.op("Pow", &[&x, &three]);
        let c1 = cst(&mut b, 0.044715);
        let pc = b.op("Mul", &[&p, &c1]);
        let inner = b.op("Add", &[&x, &pc]);
        let c2 = cst(&mut b, (2.0f32 / std::f32::consts::PI).sqrt());
        let sw = r.chance(1, 2);
        let sc = b.bin("Mul", &c2, &inner, sw);
        let t = b.op("Tanh", &[&sc]);
        let one = b.cs(&[], 1.0);
        let t1 = b.op("Add", &[&one, &t]);
        match grouping {
            0 => {
                let a = b.op("Mul", &[&x, &half]);
                b.op("Mul", &[&a, &t1])
            }
            1 => {
                let a = b.op("Mul", &[&half, &t1]);
                b.op("Mul", &[&x, &a])
            }
            _ => {
                let a = b.op("Mul", &[&x, &t1]);
                b.op("Mul", &[&a, &half])
            }
        }
    };
    b.out(&y);
    let variant = format!("{}/{}", if approx { "approx" } else { "erf" }, if near { "near".to_string() } else { ctag(cshape) });
    case("gelu", variant, if near { "loose" } else { "std" }, b, r, 2, Vals::Frac)
}

/// LayerNormalizationFusion / RMSNormalizationFusion: the canonical pattern with one perturbation.
pub fn norm(r: &mut Rng, k: usize) -> CaseD {
    let rms = k % 3 == 2;
    let perts = ["none", "axis_first", "axis_last_pos", "keep0", "const_r1", "const_r2", "scale_row", "scale_one", "scale_full", "axes_input", "none"];
    let pert = perts[(k / 3) % perts.len()];
    let xshape: &[usize] = *r.pick(&[&[2usize, 4][..], &[2, 2], &[4], &[2, 3, 2]]);
    let rank = xshape.len() as i64;
    let last = *xshape.last().unwrap();
    let mut b = B::new();
    let x = b.input_s(r, "x", FLOAT, xshape, true);
    let axis = match pert {
        "axis_first" => 0,
        "axis_last_pos" => rank - 1,
        _ => -1,
    };
    let keep = if pert == "keep0" { 0 } else { 1 };
    let axes_input = pert == "axes_input";
    let mean = |b: &mut B, v: &str| {
        if axes_input {
            let a = b.ci(&[axis]);
            b.opa("ReduceMean", &[v, &a], vec![("keepdims", AV::Int(keep))])
        } else {
            b.opa("ReduceMean", &[v], vec![("axes", AV::Ints(vec![axis])), ("keepdims", AV::Int(keep))])
        }
    };
    let eshape: &[usize] = match pert {
        "const_r1" => &[1],
        "const_r2" => &[1, 1],
        _ => &[],
    };
    let eps = b.cs(eshape, 1e-5);
    let two = b.cs(&[], 2.0);
    let sshape: Vec<usize> = match pert {
        "scale_row" => vec![1, last],
        "scale_one" => vec![1],
        "scale_full" => xshape.to_vec(),
        _ => vec![last],
    };
    let n: usize = sshape.iter().product();
    let scale = b.cf(&sshape, (0..n).map(|i| 0.5 + i as f32 * 0.25).collect());
    let y = if rms {
        let p = b.op("Pow", &[&x, &two]);
        let m = mean(&mut b, &p);
        let sw = r.chance(1, 2);
        let s = b.bin("Add", &eps, &m, sw);
        let q = b.op("Sqrt", &[&s]);
        let rc = b.op("Reciprocal", &[&q]);
        match r.below(2) {
            0 => {
                let t = b.op("Mul", &[&x, &rc]);
                b.op("Mul", &[&t, &scale])
            }
            _ => {
                let t = b.op("Mul", &[&rc, &scale]);
                b.op("Mul", &[&x, &t])
            }
        }
    } else {
        let m = mean(&mut b, &x);
        let c = b.op("Sub", &[&x, &m]);
        let p = b.op("Pow", &[&c, &two]);
        let v = mean(&mut b, &p);
        let sw = r.chance(1, 2);
        let s = b.bin("Add", &eps, &v, sw);
        let q = b.op("Sqrt", &[&s]);
        let nrm = b.op("Div", &[&c, &q]);
        let sw = r.chance(1, 2);
        let sc = b.bin("Mul", &nrm, &scale, sw);
        if r.chance(1, 2) {
            let bias = b.cf(&sshape, (0..n).map(|i| i as f32 * 0.5 - 0.5).collect());
            b.op("Add", &[&sc, &bias])
        } else {
            sc
        }
    };
    b.out(&y);
    case("norm", format!("{}/{}", if rms { "rms" } else { "ln" }, pert), "std", b, r, 2, Vals::Frac)
}

/// MatMulAddFusion: Add(MatMul(a, b), bias).
pub fn matmul_add(r: &mut Rng, _k: usize) -> CaseD {
    let (m, kk, n) = (1 + r.below(3), 1 + r.below(3), 1 + r.below(3));
    let ashape: Vec<usize> = match r.below(5) {
        0 => vec![kk],
        1 => vec![2, m, kk],
        _ => vec![m, kk],
    };
    let bshape: Vec<usize> = if r.chance(1, 6) { vec![kk] } else { vec![kk, n] };
    let mut b = B::new();
    let a = b.input_s(r, "a", FLOAT, &ashape, true);
    let bconst = r.chance(2, 3);
    let bm = if bconst {
        let cnt: usize = bshape.iter().product();
        b.cf(&bshape, (0..cnt).map(|i| (i as i64 % 5 - 2) as f32).collect())
    } else {
        b.input_f("b", fx(&bshape.iter().map(|x| *x as i64).collect::<Vec<_>>()))
    };
    let mm = b.op("MatMul", &[&a, &bm]);
    let n_out = if bshape.len() == 2 { n } else { 1 }; // a vector right operand counts as one column (gemm: N = 1)
    let (bias_shape, btag): (Vec<usize>, &str) = match r.below(8) {
        0 => (vec![1], if n_out == 1 { "vec_n" } else { "vec_1" }),
        1 => (vec![m], if m == n_out { "vec_n" } else { "vec_other" }),
        2 => (vec![1, n.max(1)], "rank2"),
        3 => (vec![], "rank0"),
        4 => (vec![n + 1], "vec_other"),
        5 => (vec![m, n], "rank2"),
        _ => (vec![n], if n == n_out { "vec_n" } else { "vec_other" }),
    };
    let cnt: usize = bias_shape.iter().product();
    let bias = b.cf(&bias_shape, (0..cnt).map(|i| (i + 1) as f32).collect());
    let swap = r.chance(1, 3);
    let y = b.bin("Add", &mm, &bias, swap);
    b.out(&y);
    // vector x vector: the product is a scalar, so even a one-element bias changes the rank
    let variant = format!("{}bias_{}", if ashape.len() == 1 && bshape.len() == 1 { "dot_" } else { "" }, btag);
    case("matmul_add", variant, "std", b, r, 2, Vals::Int(-3, 3))
}

/// MatMulScaleFusion: Mul/Div by single-element constants before / after a MatMul.
pub fn matmul_scale(r: &mut Rng, k: usize) -> CaseD {
    let cshape = CSHAPES[k % CSHAPES.len()];
    let (m, kk, n) = (1 + r.below(2), 2, 1 + r.below(2));
    let ashape: Vec<usize> = if r.chance(1, 3) { vec![kk] } else { vec![m, kk] };
    let bshape: Vec<usize> = if r.chance(1, 4) { vec![kk] } else { vec![kk, n] };
    let mut b = B::new();
    let a = b.input_f("a", fx(&ashape.iter().map(|x| *x as i64).collect::<Vec<_>>()));
    let bb = b.input_f("b", fx(&bshape.iter().map(|x| *x as i64).collect::<Vec<_>>()));
    // placement, operator form and factor cycle with k (and the position of the scaling node) so that
    // every form (x / c, c * x, x * c) occurs with every constant shape within a few programs
    let place = 1 + (k + k / 7) % 7; // bit 0: lhs, bit 1: rhs, bit 2: output
    let nth = std::cell::Cell::new(0usize);
    let scaled = |b: &mut B, v: &str, _r: &mut Rng| -> String {
        let j = nth.get();
        nth.set(j + 1);
        let val = [2.0f32, 0.5, 4.0, 0.25, 1.0][(k / 3 + j) % 5];
        let c = b.cs(cshape, val);
        match (k + j) % 3 {
            0 => b.op("Div", &[v, &c]),
            1 => b.op("Mul", &[&c, v]),
            _ => b.op("Mul", &[v, &c]),
        }
    };
    let l = if place & 1 != 0 { scaled(&mut b, &a, r) } else { a.clone() };
    let rr = if place & 2 != 0 { scaled(&mut b, &bb, r) } else { bb.clone() };
    let mm = b.op("MatMul", &[&l, &rr]);
    let y = if place & 4 != 0 { scaled(&mut b, &mm, r) } else { mm };
    b.out(&y);
    // multiples of four so that halving / quartering stays exact
    case("matmul_scale", ctag(cshape), "std", b, r, 2, Vals::Int(-2, 2)).map_data(|v| v * 4.0)
}

/// MatMulIntegerToFloatFusion / ConvIntegerToFloatFusion: Cast(XInteger(..)) * scale.
pub fn int_to_float(r: &mut Rng, k: usize) -> CaseD {
    let conv = k % 3 == 2;
    let to = if r.chance(1, 5) { INT32 } else { FLOAT };
    let mut b = B::new();
    let acc = if conv {
        let x = b.input("x", UINT8, Some(fx(&[1, 2, 3, 3])));
        let w = b.c(GT::i(&[2, 2, 2, 2], INT8, (0..16).map(|i| (i % 5) as i64 - 2).collect()));
        let xz = b.c(GT::i(&[], UINT8, vec![1]));
        let wz = b.c(GT::i(&[], INT8, vec![0]));
        b.opa("ConvInteger", &[&x, &w, &xz, &wz], vec![("kernel_shape", AV::Ints(vec![2, 2]))])
    } else {
        let (m, kk, n) = (2, 2, 1 + r.below(3));
        let a = b.input("x", UINT8, Some(fx(&[m, kk])));
        let w = b.c(GT::i(&[kk as usize, n], INT8, (0..kk as usize * n).map(|i| (i % 5) as i64 - 2).collect()));
        let az = b.c(GT::i(&[], UINT8, vec![1]));
        let wz = b.c(GT::i(&[], INT8, vec![0]));
        b.op("MatMulInteger", &[&a, &w, &az, &wz])
    };
    let c = b.opa("Cast", &[&acc], vec![("to", AV::Int(to as i64))]);
    let (sshape, stag): (Vec<usize>, &str) = if to != FLOAT {
        (vec![], "const_r0")
    } else {
        match r.below(5) {
            0 => (vec![1], "const_r1"),
            1 => (vec![1, 1], "const_r2"),
            2 if !conv => (vec![2, 1], "col"),
            3 if conv => (vec![1, 2, 1, 1], "chan"),
            _ => (vec![], "const_r0"),
        }
    };
    let cnt: usize = sshape.iter().product();
    let scale = if to == FLOAT {
        b.cf(&sshape, (0..cnt).map(|i| 0.5 * (i + 1) as f32).collect())
    } else {
        b.c(GT::i(&sshape, INT32, (0..cnt).map(|i| 2 + i as i64).collect()))
    };
    let sw = r.chance(1, 2);
    let y = b.bin("Mul", &c, &scale, sw);
    b.out(&y);
    let variant = format!("{}/{}", if conv { "conv" } else { "matmul" }, if to == FLOAT { stag } else { "cast_to_int" });
    case("int_to_float", variant, "std", b, r, 2, Vals::Int(0, 4))
}

/// ConvAddFusion: Add(Conv(x, w), bias[1, C, 1, 1]).
pub fn conv_add(r: &mut Rng, _k: usize) -> CaseD {
    let d1 = r.chance(1, 4);
    let oc = 1 + r.below(3);
    let mut b = B::new();
    let x = if d1 { b.input_f("x", fx(&[1, 2, 4])) } else { b.input_f("x", fx(&[1, 2, 3, 3])) };
    let wshape: Vec<usize> = if d1 { vec![oc, 2, 2] } else { vec![oc, 2, 2, 2] };
    let cnt: usize = wshape.iter().product();
    let wconst = r.chance(3, 4);
    let w = if wconst {
        b.cf(&wshape, (0..cnt).map(|i| (i as i64 % 3 - 1) as f32).collect())
    } else {
        b.input_f("w", fx(&wshape.iter().map(|x| *x as i64).collect::<Vec<_>>()))
    };
    let with_bias = r.chance(1, 6);
    let ks: Vec<i64> = if d1 { vec![2] } else { vec![2, 2] };
    let cv = if with_bias {
        let cb = b.cf(&[oc], (0..oc).map(|i| i as f32).collect());
        b.opa("Conv", &[&x, &w, &cb], vec![("kernel_shape", AV::Ints(ks.clone()))])
    } else {
        b.opa("Conv", &[&x, &w], vec![("kernel_shape", AV::Ints(ks.clone()))])
    };
    let (bshape, btag): (Vec<usize>, &str) = match r.below(6) {
        0 => (vec![oc, 1, 1], "nolead"),
        1 => (vec![1], "const_r1"),
        2 => (if d1 { vec![1, 1, 1] } else { vec![1, 1, 1, 1] }, "ones"),
        3 => (vec![], "const_r0"),
        _ => (if d1 { vec![1, oc, 1] } else { vec![1, oc, 1, 1] }, "chan"),
    };
    let n: usize = bshape.iter().product();
    let bias = b.cf(&bshape, (0..n).map(|i| (i + 1) as f32).collect());
    let sw = r.chance(1, 2);
    let y = b.bin("Add", &cv, &bias, sw);
    b.out(&y);
    let variant = format!("{}{}{}", btag, if with_bias { "_hasbias" } else { "" }, if wconst { "" } else { "_dynw" });
    case("conv_add", variant, "std", b, r, 2, Vals::Int(-2, 2))
}

/// SafeSoftmaxFusion (Where(IsNaN(Softmax(x)), 0, Softmax(x))) and AddSoftmaxFusion.
pub fn softmax(r: &mut Rng, k: usize) -> CaseD {
    let safe = k % 2 == 0;
    let xshape: &[usize] = *r.pick(&[&[2usize, 3][..], &[3], &[2, 2, 2]]);
    let rank = xshape.len() as i64;
    let axis = match r.below(4) {
        0 => 0,
        1 => rank - 1,
        _ => -1,
    };
    let mut b = B::new();
    let x = b.input_s(r, "x", FLOAT, xshape, true);
    if safe {
        let cshape = CSHAPES[(k / 2) % CSHAPES.len()];
        let (zv, vt, tol) = if cshape.is_empty() {
            match r.below(5) {
                0 => (5e-5, "near", "loose"),
                1 => (1.0, "nonneutral", "std"),
                _ => (0.0, "", "std"),
            }
        } else {
            (0.0, "", "std")
        };
        let y = b.opa("Softmax", &[&x], vec![("axis", AV::Int(axis))]);
        let nan = b.op("IsNaN", &[&y]);
        let z = b.cs(cshape, zv);
        let w = b.op("Where", &[&nan, &z, &y]);
        b.out(&w);
        case("softmax", format!("safe/{}", if vt.is_empty() { ctag(cshape) } else { vt.to_string() }), tol, b, r, 3, Vals::WithInf)
    } else {
        let (mshape, mtag): (Vec<usize>, &str) = match r.below(5) {
            0 => (vec![*xshape.last().unwrap()], "lastvec"),
            1 => (vec![1], "one"),
            2 => {
                let mut s = vec![2];
                s.extend_from_slice(xshape);
                (s, "bigger")
            }
            3 => (xshape.iter().enumerate().map(|(i, d)| if i == 0 { 1 } else { *d }).collect(), "lead1"),
            _ => (xshape.to_vec(), "same"),
        };
        let mconst = r.chance(1, 2);
        let n: usize = mshape.iter().product();
        let m = if mconst {
            b.cf(&mshape, (0..n).map(|i| if i % 4 == 3 { f32::NEG_INFINITY } else { (i % 3) as f32 }).collect())
        } else {
            b.input_f("mask", fx(&mshape.iter().map(|x| *x as i64).collect::<Vec<_>>()))
        };
        let sw = r.chance(1, 2);
        let s = b.bin("Add", &x, &m, sw);
        let y = b.opa("Softmax", &[&s], vec![("axis", AV::Int(axis))]);
        b.out(&y);
        let axt = if axis == -1 { "neg1" } else if axis == rank - 1 { "last" } else { "first" };
        case("softmax", format!("add/{}_{}", mtag, axt), "std", b, r, 2, Vals::Int(-3, 3))
    }
}

/// RepeatInterleaveFusion: Unsqueeze -> Expand -> Reshape, interleave- and tile-shaped.
pub fn repeat_interleave(r: &mut Rng, k: usize) -> CaseD {
    let xshape: Vec<usize> = match r.below(3) {
        0 => vec![2, 3],
        1 => vec![2, 2, 2],
        _ => vec![1, 2, 2, 3],
    };
    let rank = xshape.len();
    let axis = r.below(rank); // the axis whose extent is multiplied
    let reps = 2 + r.below(2);
    let tile = k % 3 == 1;
    let cross = k % 3 == 2 && rank >= 2;
    // interleave: new axis right AFTER `axis`; tile: right BEFORE it; cross: anywhere else (the
    // Reshape then moves elements across axes)
    let uax = if cross {
        let others: Vec<usize> = (0..=rank).filter(|u| *u != axis && *u != axis + 1).collect();
        others[r.below(others.len())]
    } else if tile {
        axis
    } else {
        axis + 1
    };
    let mut eshape: Vec<i64> = xshape.iter().map(|d| *d as i64).collect();
    eshape.insert(uax, reps as i64);
    let mut oshape: Vec<i64> = xshape.iter().map(|d| *d as i64).collect();
    oshape[axis] *= reps as i64;
    let mut b = B::new();
    let symb = r.chance(1, 3) && axis != 0;
    let mut d = fx(&xshape.iter().map(|x| *x as i64).collect::<Vec<_>>());
    if symb {
        d[0] = sym("N");
    }
    b.shapes.insert("x".to_string(), xshape.clone());
    let x = b.input("x", FLOAT, Some(d));
    let neg = r.chance(1, 3);
    let ua = b.ci(&[if neg { uax as i64 - (rank as i64 + 1) } else { uax as i64 }]);
    let u = b.op("Unsqueeze", &[&x, &ua]);
    // Expand shape: the full shape, or ones except the new axis
    let ones = r.chance(1, 2);
    let es: Vec<i64> = if ones || symb { (0..rank + 1).map(|i| if i == uax { reps as i64 } else { 1 }).collect() } else { eshape.clone() };
    let esn = b.ci(&es);
    let e = b.op("Expand", &[&u, &esn]);
    let os: Vec<i64> = if symb {
        oshape.iter().enumerate().map(|(i, d)| if i == 0 { 0 } else { *d }).collect()
    } else if r.chance(1, 3) {
        oshape.iter().enumerate().map(|(i, d)| if i == rank - 1 && axis != rank - 1 { -1 } else { *d }).collect()
    } else {
        oshape.clone()
    };
    let osn = b.ci(&os);
    let y = b.op("Reshape", &[&e, &osn]);
    b.out(&y);
    // with inference off the fusion needs declared shapes of x and the Reshape output
    if r.chance(1, 2) && !symb {
        b.vinfo(&y, FLOAT, fx(&oshape));
    }
    // a tile over an axis of extent 1 IS an interleave: not a perturbation
    let variant = if cross { "cross_axis" } else if tile && xshape[axis] > 1 { "tile" } else { "interleave" };
    case("repeat_interleave", variant.to_string(), "std", b, r, 2, Vals::Int(-9, 9))
}

/// GroupedQueryAttentionMatMulFusion on top of RepeatInterleave (+ MatMulScale + Transpose).
pub fn gqa(r: &mut Rng, k: usize) -> CaseD {
    let (bs, hkv, reps, s, dm) = (1 + r.below(2), 1 + r.below(2), 2, 2, 2 + r.below(2));
    let hq = hkv * reps;
    let tile = k % 4 == 3;
    let qk = k % 2 == 0;
    let mut b = B::new();
    let kv = b.input_f("kv", fx(&[bs as i64, hkv as i64, s as i64, dm as i64]));
    let uax = if tile { 1 } else { 2 };
    let ua = b.ci(&[uax]);
    let u = b.op("Unsqueeze", &[&kv, &ua]);
    let mut es = vec![bs as i64, hkv as i64, s as i64, dm as i64];
    es.insert(uax as usize, reps as i64);
    let esn = b.ci(&es);
    let e = b.op("Expand", &[&u, &esn]);
    let osn = b.ci(&[bs as i64, hq as i64, s as i64, dm as i64]);
    let rep = b.op("Reshape", &[&e, &osn]);
    let mut tt = "";
    let y = if qk {
        let transposed = !r.chance(1, 5);
        let mm = if transposed {
            let q = b.input_f("q", fx(&[bs as i64, hq as i64, s as i64, dm as i64]));
            let kt = b.opa("Transpose", &[&rep], vec![("perm", AV::Ints(vec![0, 1, 3, 2]))]);
            b.op("MatMul", &[&q, &kt])
        } else {
            // a Transpose that is not the last-two-dims swap: perm [0, 1, 2, 3]
            tt = "_idperm";
            let q = b.input_f("q", fx(&[bs as i64, hq as i64, s as i64, s as i64]));
            let kt = b.opa("Transpose", &[&rep], vec![("perm", AV::Ints(vec![0, 1, 2, 3]))]);
            b.op("MatMul", &[&q, &kt])
        };
        let c = b.cs(&[], 0.5);
        b.op("Mul", &[&mm, &c])
    } else {
        let a = b.input_f("attn", fx(&[bs as i64, hq as i64, s as i64, s as i64]));
        b.op("MatMul", &[&a, &rep])
    };
    b.out(&y);
    let tile_eff = tile && hkv > 1;
    case("gqa", format!("{}/{}{}", if qk { "qk" } else { "av" }, if tile_eff { "tile" } else { "interleave" }, tt), "std", b, r, 2, Vals::Int(-2, 2)).map_data(|v| v * 2.0)
}

/// TransposeFusion: Transpose feeding MatMul / Concat / Expand / Slice / Split.
pub fn transpose(r: &mut Rng, k: usize) -> CaseD {
    let consumer = ["MatMul", "Concat", "Expand", "Slice", "Split"][k % 5];
    let rank = if consumer == "MatMul" { 2 + r.below(2) } else { 1 + r.below(3) };
    let xshape: Vec<usize> = (0..rank).map(|_| 1 + r.below(3)).collect();
    let mut perm: Vec<i64> = (0..rank as i64).collect();
    r.shuffle(&mut perm);
    let default_perm = r.chance(1, 4);
    if default_perm {
        perm = (0..rank as i64).rev().collect();
    }
    let tshape: Vec<usize> = perm.iter().map(|p| xshape[*p as usize]).collect();
    let mut b = B::new();
    let x = b.input_s(r, "x", FLOAT, &xshape, false);
    let tr = |b: &mut B, v: &str| if default_perm { b.op("Transpose", &[v]) } else { b.opa("Transpose", &[v], vec![("perm", AV::Ints(perm.clone()))]) };
    let t = tr(&mut b, &x);
    match consumer {
        "MatMul" => {
            let kdim = *tshape.last().unwrap();
            let side = r.below(3);
            let mut other_shape = vec![kdim, 2];
            if rank == 3 && r.chance(1, 2) {
                other_shape.insert(0, tshape[0]);
            }
            let n: usize = other_shape.iter().product();
            let o = b.cf(&other_shape, (0..n).map(|i| (i as i64 % 3 - 1) as f32).collect());
            let y = match side {
                0 => b.op("MatMul", &[&t, &o]),
                1 => {
                    // o2 [2, rows of t] x t
                    let f = tshape[tshape.len() - 2];
                    let o2 = b.cf(&[2, f], (0..2 * f).map(|i| (i as i64 % 3 - 1) as f32).collect());
                    b.op("MatMul", &[&o2, &t])
                }
                _ => {
                    // both operands transposed: t x Transpose(w)
                    let w = b.input_f("w", fx(&[2, kdim as i64]));
                    let wt = b.opa("Transpose", &[&w], vec![("perm", AV::Ints(vec![1, 0]))]);
                    b.op("MatMul", &[&t, &wt])
                }
            };
            b.out(&y);
        }
        "Concat" => {
            let axis = r.below(rank) as i64;
            let n: usize = tshape.iter().product();
            let o = b.cf(&tshape, (0..n).map(|i| i as f32).collect());
            let first = r.chance(1, 2);
            let both = r.chance(1, 3);
            let y = if both {
                let t2 = tr(&mut b, &x);
                b.opa("Concat", &[&t, &t2], vec![("axis", AV::Int(axis))])
            } else if first {
                b.opa("Concat", &[&t, &o], vec![("axis", AV::Int(axis))])
            } else {
                b.opa("Concat", &[&o, &t], vec![("axis", AV::Int(if r.chance(1, 2) { axis - rank as i64 } else { axis }))])
            };
            b.out(&y);
        }
        "Expand" => {
            let mut es: Vec<i64> = tshape.iter().map(|d| *d as i64).collect();
            for (i, d) in tshape.iter().enumerate() {
                if *d == 1 && r.chance(1, 2) {
                    es[i] = 3;
                }
            }
            es.insert(0, 2);
            let esn = b.ci(&es);
            let y = b.op("Expand", &[&t, &esn]);
            b.out(&y);
        }
        "Slice" => {
            let ax = r.below(rank) as i64;
            let st = b.ci(&[r.range(-3, 1)]);
            let en = b.ci(&[r.range(1, 4)]);
            let axn = b.ci(&[ax]);
            let step = *r.pick(&[1i64, 1, 2]);
            let y = if step == 1 {
                b.op("Slice", &[&t, &st, &en, &axn])
            } else {
                let sp = b.ci(&[step]);
                b.op("Slice", &[&t, &st, &en, &axn, &sp])
            };
            b.out(&y);
        }
        _ => {
            let ax = r.below(rank);
            let dsz = tshape[ax];
            if dsz >= 2 {
                let sp = b.ci(&[1, dsz as i64 - 1]);
                let o = b.opn("Split", &[&t, &sp], vec![("axis", AV::Int(ax as i64))], 2);
                b.out(&o[0]);
                b.out(&o[1]);
            } else {
                let o = b.opn("Split", &[&t], vec![("axis", AV::Int(ax as i64)), ("num_outputs", AV::Int(1))], 1);
                b.out(&o[0]);
            }
        }
    }
    let variant = format!("{}{}", consumer.to_lowercase(), if default_perm { "_defperm" } else { "" });
    case("transpose", variant, "std", b, r, 2, Vals::Int(-4, 4))
}

/// A subgraph `If` whose branches read `captured` (a value of the enclosing graph).
fn if_capturing(b: &mut B, cond: &str, captured: &str, other: &str) -> String {
    let mut then_g = ModelD::default();
    then_g.nodes.push(NodeD { op: "Neg".into(), ins: vec![captured.to_string()], outs: vec!["then_out".into()], attrs: vec![] });
    then_g.outputs.push("then_out".into());
    let mut else_g = ModelD::default();
    else_g.nodes.push(NodeD { op: "Identity".into(), ins: vec![other.to_string()], outs: vec!["else_out".into()], attrs: vec![] });
    else_g.outputs.push("else_out".into());
    b.opa("If", &[cond], vec![("then_branch", AV::Graph(Box::new(then_g))), ("else_branch", AV::Graph(Box::new(else_g)))])
}

/// apply_fusion guards: an intermediate of a fusible pattern is a graph output, has another
/// consumer, or is captured by a subgraph.
pub fn guards(r: &mut Rng, k: usize) -> CaseD {
    let pat = ["silu", "matmul_add", "transpose", "identity", "gelu", "swish"][k % 6];
    let guard = ["output", "consumer", "capture", "none"][(k / 6) % 4];
    let mut b = B::new();
    let x = b.input_f("x", fx(&[2, 2]));
    // (intermediate, final)
    let (mid, fin) = match pat {
        "silu" => {
            let s = b.op("Sigmoid", &[&x]);
            let y = b.op("Mul", &[&x, &s]);
            (s, y)
        }
        "swish" => {
            let a = b.cs(&[], 2.0);
            let ax = b.op("Mul", &[&a, &x]);
            let s = b.op("Sigmoid", &[&ax]);
            let y = b.op("Mul", &[&x, &s]);
            (if r.chance(1, 2) { ax } else { s }, y)
        }
        "matmul_add" => {
            let w = b.cf(&[2, 2], vec![1.0, 2.0, -1.0, 0.0]);
            let mm = b.op("MatMul", &[&x, &w]);
            let bias = b.cf(&[2], vec![1.0, 2.0]);
            let y = b.op("Add", &[&mm, &bias]);
            (mm, y)
        }
        "transpose" => {
            let t = b.opa("Transpose", &[&x], vec![("perm", AV::Ints(vec![1, 0]))]);
            let w = b.cf(&[2, 2], vec![1.0, 2.0, -1.0, 0.0]);
            let y = b.op("MatMul", &[&t, &w]);
            (t, y)
        }
        "identity" => {
            let n = b.op("Neg", &[&x]);
            let z = b.cs(&[], 0.0);
            let y = b.op("Add", &[&n, &z]);
            (n, y)
        }
        _ => {
            let c = b.cs(&[], 2.0f32.sqrt());
            let xs = b.op("Div", &[&x, &c]);
            let e = b.op("Erf", &[&xs]);
            let one = b.cs(&[], 1.0);
            let e1 = b.op("Add", &[&e, &one]);
            let t = b.op("Mul", &[&x, &e1]);
            let h = b.cs(&[], 0.5);
            let y = b.op("Mul", &[&t, &h]);
            (if r.chance(1, 2) { e1 } else { t }, y)
        }
    };
    match guard {
        "output" => {
            if r.chance(1, 2) {
                b.out(&mid);
                b.out(&fin);
            } else {
                b.out(&fin);
                b.out(&mid);
            }
        }
        "consumer" => {
            let z = b.op("Neg", &[&mid]);
            b.out(&fin);
            b.out(&z);
        }
        "capture" => {
            let cond = b.input("cond", BOOL, Some(vec![]));
            let z = if_capturing(&mut b, &cond, &mid, &x);
            b.out(&fin);
            b.out(&z);
        }
        _ => b.out(&fin),
    }
    let ints = !matches!(pat, "silu" | "swish" | "gelu");
    case("guards", format!("{pat}/{guard}"), "std", b, r, 2, if ints { Vals::Int(-3, 3) } else { Vals::Frac })
}

/// Optimisation inside subgraphs: branches use captured constants of the parent (which
/// convert_captured_values_to_constants turns into local constants, enabling fusions there).
pub fn subgraph_const(r: &mut Rng, k: usize) -> CaseD {
    let cshape = CSHAPES[k % CSHAPES.len()];
    let mut b = B::new();
    let x = b.input_f("x", fx(&[2]));
    let cond = b.input("cond", BOOL, Some(vec![]));
    let zero = b.cs(cshape, 0.0);
    let one = b.cs(cshape, 1.0);
    let w = b.cf(&[2, 2], vec![1.0, 2.0, 3.0, 4.0]);
    // make the constants also visible to the main graph so that they are not dropped
    let keep = b.op("Add", &[&zero, &one]);
    let mut then_g = ModelD::default();
    let pat = r.below(3);
    match pat {
        0 => then_g.nodes.push(NodeD { op: "Add".into(), ins: vec![x.clone(), zero.clone()], outs: vec!["t1".into()], attrs: vec![] }),
        1 => then_g.nodes.push(NodeD { op: "Mul".into(), ins: vec![one.clone(), x.clone()], outs: vec!["t1".into()], attrs: vec![] }),
        _ => {
            then_g.nodes.push(NodeD { op: "Transpose".into(), ins: vec![w.clone()], outs: vec!["t0".into()], attrs: vec![] });
            then_g.nodes.push(NodeD { op: "MatMul".into(), ins: vec![x.clone(), "t0".into()], outs: vec!["t1".into()], attrs: vec![] });
        }
    }
    then_g.outputs.push("t1".into());
    let mut else_g = ModelD::default();
    else_g.nodes.push(NodeD { op: "Sub".into(), ins: vec![x.clone(), one.clone()], outs: vec!["e1".into()], attrs: vec![] });
    else_g.outputs.push("e1".into());
    let y = b.opa("If", &[&cond], vec![("then_branch", AV::Graph(Box::new(then_g))), ("else_branch", AV::Graph(Box::new(else_g)))]);
    b.out(&y);
    b.out(&keep);
    let variant = if pat == 2 { "transpose_matmul/canonical".to_string() } else { format!("identity/{}", ctag(cshape)) };
    case("subgraph_const", variant, "std", b, r, 3, Vals::Int(-3, 3))
}

/// Values that shape inference replaces by constants (optimize.rs: Shape::Constant ->
/// add_typed_constant + replace_value): the forms for which rten-shape-inference is known to
/// compute a value or rank that execution does not (C10's findings), seen from the C01 side.
pub fn infer_consts(r: &mut Rng, k: usize) -> CaseD {
    let kind = ["where_scalar", "equal_neg", "dup_outputs", "where_scalar_shape_use", "plain_dim", "dup_outputs_float", "expand_short_shape"][k % 7];
    if kind == "expand_short_shape" {
        // Expand whose `shape` input has a known LENGTH smaller than the data rank and unknown values
        let mut b = B::new();
        let x = b.input_f("x", fx(&[2, 3]));
        let s = b.input("s", INT64, Some(fx(&[1])));
        let y = b.op("Expand", &[&x, &s]);
        b.out(&y);
        let mut c = case("infer_consts", "fixed/expand_short_shape".to_string(), "std", b, r, 2, Vals::Int(-3, 3));
        for run in &mut c.runs {
            run[1] = GT::i64s(&[*r.pick(&[3i64, 1])]);
        }
        return c;
    }
    let mut b = B::new();
    let dsym = r.chance(1, 2);
    let d0 = 1 + r.below(3) as i64;
    b.shapes.insert("x".to_string(), vec![d0 as usize, 3]);
    let x = b.input("x", FLOAT, Some(vec![if dsym { sym("N") } else { DimD::Fixed(d0) }, DimD::Fixed(3)]));
    let s = b.op("Shape", &[&x]);
    let i0 = b.c(GT::i64_scalar(0));
    let d = b.opa("Gather", &[&s, &i0], vec![("axis", AV::Int(0))]); // scalar dim
    match kind {
        "where_scalar" | "where_scalar_shape_use" => {
            let c = b.c(GT::i64_scalar(r.range(1, 3)));
            let e = b.op("Equal", &[&d, &c]);
            let a1 = b.c(GT::i64_scalar(r.range(1, 3)));
            let a2 = b.c(GT::i64_scalar(r.range(1, 3)));
            let w = b.op("Where", &[&e, &a1, &a2]);
            if kind == "where_scalar" {
                b.out(&w);
            } else {
                let ax = b.ci(&[0]);
                let v = b.op("Unsqueeze", &[&w, &ax]);
                let f = b.opa("ConstantOfShape", &[&v], vec![("value", AV::Tens(GT::i(&[1], INT64, vec![5])))]);
                b.out(&f);
            }
        }
        "equal_neg" => {
            // Equal(-d, -c) / Equal(d * -1, -c): true exactly when d = c
            let c = r.range(1, 3);
            let nd = if r.chance(1, 2) {
                b.op("Neg", &[&d])
            } else {
                let m1 = b.c(GT::i64_scalar(-1));
                b.op("Mul", &[&d, &m1])
            };
            let ax = b.ci(&[0]);
            let ndv = b.op("Unsqueeze", &[&nd, &ax]);
            let cc = b.ci(&[-c]);
            let e = b.op("Equal", &[&ndv, &cc]);
            let a1 = b.ci(&[7]);
            let a2 = b.ci(&[9]);
            let w = b.op("Where", &[&e, &a1, &a2]);
            b.out(&w);
        }
        "dup_outputs" | "dup_outputs_float" => {
            // two graph outputs that inference evaluates to the same constant
            let y = b.op("Relu", &[&x]);
            let s2 = b.op("Shape", &[&y]);
            let i1 = b.c(GT::i64_scalar(1));
            let d1a = b.opa("Gather", &[&s, &i1], vec![("axis", AV::Int(0))]);
            let d1b = b.opa("Gather", &[&s2, &i1], vec![("axis", AV::Int(0))]);
            if kind == "dup_outputs" {
                b.out(&d1a);
                b.out(&d1b);
            } else {
                let f1 = b.opa("Cast", &[&d1a], vec![("to", AV::Int(FLOAT as i64))]);
                let f2 = b.opa("Cast", &[&d1b], vec![("to", AV::Int(FLOAT as i64))]);
                b.out(&f1);
                b.out(&f2);
            }
        }
        _ => {
            let two = b.c(GT::i64_scalar(2));
            let m = b.op("Mul", &[&d, &two]);
            b.out(&m);
            b.out(&d);
        }
    }
    case("infer_consts", format!("{}/{kind}", if dsym { "sym" } else { "fixed" }), "std", b, r, 3, Vals::Int(-3, 3))
}

impl CaseD {
    /// Scale every float input value (keeps integer-valued data integer-valued).
    pub fn map_data(mut self, f: impl Fn(f32) -> f32) -> CaseD {
        for run in &mut self.runs {
            for t in run {
                if let super::model::Data::F(v) = &mut t.data {
                    for x in v.iter_mut() {
                        *x = f(*x);
                    }
                }
            }
        }
        self
    }
}

pub type Fam = fn(&mut Rng, usize) -> CaseD;

pub const FAMILIES: [(&str, Fam); 21] = [
    ("identity", identity),
    ("identity_late", identity_late),
    ("cast", cast),
    ("shape_slice", shape_slice),
    ("compute_shape", compute_shape),
    ("reciprocal", reciprocal),
    ("reduce_mean_axes", reduce_mean_axes),
    ("silu_swish", silu_swish),
    ("gelu", gelu),
    ("norm", norm),
    ("matmul_add", matmul_add),
    ("matmul_scale", matmul_scale),
    ("int_to_float", int_to_float),
    ("conv_add", conv_add),
    ("softmax", softmax),
    ("repeat_interleave", repeat_interleave),
    ("gqa", gqa),
    ("transpose", transpose),
    ("guards", guards),
    ("subgraph_const", subgraph_const),
    ("infer_consts", infer_consts),
];

#[allow(dead_code)]
fn _unused(_: i32) {
    let _ = INT64;
}
