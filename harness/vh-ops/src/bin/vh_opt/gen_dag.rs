//! (ii) random DAGs over the exact integer subset and (iii) shape-arithmetic chains.
//!
//! Graphs are grown by generate-and-test: after a node is appended, the UNOPTIMISED model is run on
//! the first input set to learn the shape / value of the new node (used only to choose valid
//! parameters for later nodes, never to judge); a node the baseline cannot run is dropped.

use rten::Value;
use rten_tensor::prelude::*;
use vcommon::onnx::{BOOL, FLOAT, INT32, INT64};
use vcommon::{Rng, guarded};

use super::build::{B, Vals, feeds, fx, sym};
use super::model::{AV, CaseD, Data, DimD, GT, ModelD};
use super::run::{Loaded, load_cfg};
use std::collections::HashMap;

#[derive(Clone, Debug)]
struct V {
    name: String,
    ot: i32,
    shape: Vec<usize>,
    /// value on the first input set (integers)
    val: Vec<i64>,
    /// depends on constants only (candidate for constant propagation)
    konst: bool,
}

fn probe(m: &ModelD, feed: &[GT], name: &str) -> Option<(i32, Vec<usize>, Vec<i64>)> {
    let mut m2 = m.clone();
    m2.outputs = vec![name.to_string()];
    let bytes = m2.to_bytes();
    let Loaded::Ok(model) = load_cfg(&bytes, false, "off") else { return None };
    let res = guarded(|| -> Result<Vec<Value>, String> {
        let mut inputs = Vec::new();
        for (t, v) in feed.iter().zip(&m.inputs) {
            let id = model.node_id(&v.name).map_err(|e| e.to_string())?;
            inputs.push((id, t.to_value().into()));
        }
        let out = model.node_id(name).map_err(|e| e.to_string())?;
        model.run(inputs, &[out], None).map_err(|e| e.to_string())
    });
    match res {
        Ok(Ok(v)) => match &v[0] {
            Value::FloatTensor(t) => {
                if t.iter().any(|x| !x.is_finite() || x.fract() != 0.0 || x.abs() > 4096.0) {
                    return None; // keep the family integer-valued and small
                }
                Some((FLOAT, t.shape().to_vec(), t.iter().map(|x| *x as i64).collect()))
            }
            Value::Int32Tensor(t) => {
                if t.iter().any(|x| x.abs() > 1 << 20) {
                    return None;
                }
                Some((INT64, t.shape().to_vec(), t.iter().map(|x| *x as i64).collect()))
            }
            _ => None,
        },
        _ => None,
    }
}

fn numel(s: &[usize]) -> usize {
    s.iter().product()
}

struct Grow<'a> {
    b: B,
    vals: Vec<V>,
    feed: Vec<GT>,
    r: &'a mut Rng,
}

impl<'a> Grow<'a> {
    /// Append a node (already pushed on the builder by `f`) if the baseline can run it.
    fn try_node(&mut self, f: impl FnOnce(&mut B, &mut Rng) -> Option<(String, bool)>) -> bool {
        let n_nodes = self.b.m.nodes.len();
        let n_inits = self.b.m.inits.len();
        let Some((out, konst)) = f(&mut self.b, self.r) else {
            self.b.m.nodes.truncate(n_nodes);
            self.b.m.inits.truncate(n_inits);
            return false;
        };
        match probe(&self.b.m, &self.feed, &out) {
            Some((ot, shape, val)) if numel(&shape) <= 64 => {
                self.vals.push(V { name: out, ot, shape, val, konst });
                true
            }
            _ => {
                self.b.m.nodes.truncate(n_nodes);
                self.b.m.inits.truncate(n_inits);
                false
            }
        }
    }
    fn pick(&mut self, pred: impl Fn(&V) -> bool) -> Option<V> {
        let c: Vec<&V> = self.vals.iter().filter(|v| pred(v)).collect();
        if c.is_empty() { None } else { Some((*c[self.r.below(c.len())]).clone()) }
    }
}

fn const_like(b: &mut B, r: &mut Rng, ot: i32, shape: &[usize], lo: i64, hi: i64) -> String {
    let n = numel(shape);
    if ot == FLOAT {
        b.cf(shape, (0..n).map(|_| r.range(lo, hi) as f32).collect())
    } else {
        b.c(GT::i(shape, INT64, (0..n).map(|_| r.range(lo, hi)).collect()))
    }
}

/// One random node from the exact-subset menu.
fn dag_step(g: &mut Grow) -> bool {
    let choice = g.r.below(22);
    let Some(a) = g.pick(|_| true) else { return false };
    match choice {
        0..=3 => {
            // elementwise binary with another value of the same dtype or a constant (various ranks)
            let op = *g.r.pick(&["Add", "Sub", "Mul", "Add", "Mul", "Min", "Max"]);
            let other = g.pick(|v| v.ot == a.ot && (v.shape == a.shape || v.shape.is_empty() || numel(&v.shape) == 1));
            let use_const = other.is_none() || g.r.chance(1, 2);
            // (x op k with k a constant-DERIVED one-element float value equal to the operator's identity
            // element and of higher rank than x is again the subject of the `identity*` families)
            let unit = |v: &V, w: &V| v.konst && v.ot == FLOAT && v.val.len() == 1 && v.shape.len() > w.shape.len() && (v.val[0] == 0 || v.val[0] == 1);
            if !use_const {
                let o = other.as_ref().unwrap();
                if unit(o, &a) || unit(&a, o) {
                    return false;
                }
            }
            g.try_node(|b, r| {
                let (o, ok) = if use_const {
                    let cs: Vec<usize> = match r.below(5) {
                        0 => vec![],
                        1 => vec![1],
                        2 => vec![1; a.shape.len() + 1],
                        3 if !a.shape.is_empty() => vec![*a.shape.last().unwrap()],
                        _ => a.shape.clone(),
                    };
                    // identity elements appear often so that IdentityFusion is in play
                    let v = match r.below(4) {
                        0 => 0,
                        1 => 1,
                        _ => r.range(-2, 3),
                    };
                    // (a single-element float constant that is the operator's identity element and has
                    // a higher rank than the other operand is the subject of the `identity*` families:
                    // neither the new constant nor a constant-derived `a` may be one here)
                    let cs = if a.konst && a.ot == FLOAT && a.val.len() == 1 && a.shape.len() > cs.len() && (a.val[0] == 0 || a.val[0] == 1) {
                        a.shape.clone()
                    } else {
                        cs
                    };
                    let n = numel(&cs);
                    let v = if a.ot == FLOAT && n == 1 && cs.len() > a.shape.len() && (v == 0 || v == 1) { 2 } else { v };
                    let c = if a.ot == FLOAT { b.cf(&cs, vec![v as f32; n]) } else { b.c(GT::i(&cs, INT64, vec![v; n])) };
                    (c, a.konst)
                } else {
                    let o = other.clone().unwrap();
                    (o.name, a.konst && o.konst)
                };
                let sw = r.chance(1, 2);
                Some((b.bin(op, &a.name, &o, sw), ok))
            })
        }
        4 => g.try_node(|b, r| Some((b.op(*r.pick(&["Neg", "Abs", "Identity", "Relu"]), &[&a.name]), a.konst))),
        5 => {
            // Cast between f32 and int, or to the same type
            let to = *g.r.pick(&[FLOAT, INT64, INT32]);
            g.try_node(|b, _| Some((b.opa("Cast", &[&a.name], vec![("to", AV::Int(to as i64))]), a.konst)))
        }
        6 => {
            // Reshape to a constant target (with -1 / 0 forms)
            let n = numel(&a.shape);
            if n == 0 {
                return false;
            }
            g.try_node(|b, r| {
                let mut t: Vec<i64> = match r.below(4) {
                    0 => vec![n as i64],
                    1 => vec![1, n as i64],
                    2 if n % 2 == 0 => vec![2, (n / 2) as i64],
                    _ => vec![n as i64, 1],
                };
                if r.chance(1, 3) {
                    let i = r.below(t.len());
                    t[i] = -1;
                }
                let s = b.ci(&t);
                Some((b.op("Reshape", &[&a.name, &s]), a.konst))
            })
        }
        7 => {
            if a.shape.len() < 2 {
                return false;
            }
            g.try_node(|b, r| {
                let mut p: Vec<i64> = (0..a.shape.len() as i64).collect();
                r.shuffle(&mut p);
                Some((b.opa("Transpose", &[&a.name], vec![("perm", AV::Ints(p))]), a.konst))
            })
        }
        8 => {
            let Some(o) = g.pick(|v| v.ot == a.ot && v.shape == a.shape && !v.shape.is_empty()) else { return false };
            g.try_node(|b, r| {
                let ax = r.below(a.shape.len()) as i64;
                let ax = if r.chance(1, 3) { ax - a.shape.len() as i64 } else { ax };
                Some((b.opa("Concat", &[&a.name, &o.name], vec![("axis", AV::Int(ax))]), a.konst && o.konst))
            })
        }
        9 => {
            if a.shape.is_empty() {
                return false;
            }
            g.try_node(|b, r| {
                let ax = r.below(a.shape.len());
                let d = a.shape[ax] as i64;
                let st = b.ci(&[r.range(-d, d)]);
                let en = b.ci(&[r.range(-d, d + 1)]);
                let axn = b.ci(&[ax as i64]);
                Some((b.op("Slice", &[&a.name, &st, &en, &axn]), a.konst))
            })
        }
        10 => {
            if a.shape.is_empty() || a.shape[0] == 0 {
                return false;
            }
            g.try_node(|b, r| {
                let ax = r.below(a.shape.len());
                let d = a.shape[ax] as i64;
                if d == 0 {
                    return None;
                }
                let idx = match r.below(3) {
                    0 => b.c(GT::i64_scalar(r.range(-d, d - 1))),
                    1 => b.ci(&[r.range(-d, d - 1)]),
                    _ => b.ci(&[r.range(0, d - 1), r.range(-d, -1)]),
                };
                Some((b.opa("Gather", &[&a.name, &idx], vec![("axis", AV::Int(ax as i64))]), a.konst))
            })
        }
        11 => {
            if a.shape.is_empty() {
                return false;
            }
            g.try_node(|b, r| {
                let ax = r.below(a.shape.len()) as i64;
                let axes = b.ci(&[if r.chance(1, 2) { ax } else { ax - a.shape.len() as i64 }]);
                let keep = r.below(2) as i64;
                let op = *r.pick(&["ReduceSum", "ReduceMax", "ReduceMin"]);
                Some((b.opa(op, &[&a.name, &axes], vec![("keepdims", AV::Int(keep))]), a.konst))
            })
        }
        12 | 13 => {
            // comparison -> Where (an all-scalar Where is the subject of infer_consts/where_scalar)
            if a.shape.is_empty() {
                return false;
            }
            let Some(o) = g.pick(|v| v.ot == a.ot && (v.shape == a.shape || numel(&v.shape) == 1)) else { return false };
            let cmp = *g.r.pick(&["Equal", "Greater", "Less"]);
            let ok = g.try_node(|b, _| Some((b.op(cmp, &[&a.name, &o.name]), a.konst && o.konst)));
            if !ok {
                return false;
            }
            let c = g.vals.pop().unwrap(); // the bool value is only used as the condition
            g.try_node(|b, r| {
                let alt = const_like(b, r, a.ot, &[], -3, 3);
                let sw = r.chance(1, 2);
                Some((if sw { b.op("Where", &[&c.name, &alt, &a.name]) } else { b.op("Where", &[&c.name, &a.name, &alt]) }, c.konst && a.konst))
            })
        }
        14 => g.try_node(|b, _| Some((b.op("Shape", &[&a.name]), false))),
        15 => {
            g.try_node(|b, r| {
                let rank = a.shape.len() as i64;
                let ax = r.range(-(rank + 1), rank);
                let axes = b.ci(&[ax]);
                Some((b.op("Unsqueeze", &[&a.name, &axes]), a.konst))
            })
        }
        16 => {
            let ones: Vec<usize> = (0..a.shape.len()).filter(|i| a.shape[*i] == 1).collect();
            if ones.is_empty() {
                return false;
            }
            g.try_node(|b, r| {
                let ax = ones[r.below(ones.len())] as i64;
                let axes = b.ci(&[ax]);
                Some((b.op("Squeeze", &[&a.name, &axes]), a.konst))
            })
        }
        17 => {
            g.try_node(|b, r| {
                let mut t: Vec<i64> = a.shape.iter().map(|d| if *d == 1 && r.chance(1, 2) { 2 } else { *d as i64 }).collect();
                if r.chance(1, 2) {
                    t.insert(0, 2);
                }
                let s = b.ci(&t);
                Some((b.op("Expand", &[&a.name, &s]), a.konst))
            })
        }
        18 => {
            // MatMul of 2-D float values with a constant (or transposed constant)
            if a.ot != FLOAT || a.shape.len() != 2 {
                return false;
            }
            g.try_node(|b, r| {
                let kd = a.shape[1];
                let n = 1 + r.below(2);
                let w = b.cf(&[kd, n], (0..kd * n).map(|_| r.range(-2, 2) as f32).collect());
                let mm = b.op("MatMul", &[&a.name, &w]);
                if r.chance(1, 2) {
                    let bias = b.cf(&[n], (0..n).map(|_| r.range(-2, 2) as f32).collect());
                    Some((b.op("Add", &[&mm, &bias]), a.konst))
                } else {
                    Some((mm, a.konst))
                }
            })
        }
        19 => {
            // shape-like int vector -> ConstantOfShape
            if a.ot == FLOAT || a.shape.len() != 1 || a.val.iter().any(|v| *v < 0 || *v > 4) || a.val.len() > 3 {
                return false;
            }
            g.try_node(|b, r| {
                let v = if r.chance(1, 2) { GT::f(&[1], vec![r.range(-2, 2) as f32]) } else { GT::i(&[1], INT64, vec![r.range(-2, 2)]) };
                Some((b.opa("ConstantOfShape", &[&a.name], vec![("value", AV::Tens(v))]), a.konst))
            })
        }
        20 => g.try_node(|b, _| Some((b.op("Size", &[&a.name]), false))),
        _ => {
            g.try_node(|b, r| {
                let ax = r.range(0, a.shape.len() as i64);
                Some((b.opa("Flatten", &[&a.name], vec![("axis", AV::Int(ax))]), a.konst))
            })
        }
    }
}

fn finish(mut g: Grow, fam: &str, variant: String, nruns: usize, extra_outputs: usize) -> Option<CaseD> {
    if g.vals.len() < 3 {
        return None;
    }
    // the last value and some intermediates are graph outputs (values that are both outputs and
    // inputs of later nodes)
    let produced: Vec<String> = g.b.m.nodes.iter().flat_map(|n| n.outs.clone()).collect();
    let cand: Vec<&V> = g.vals.iter().filter(|v| produced.contains(&v.name)).collect();
    if cand.is_empty() {
        return None;
    }
    // (two graph outputs that evaluate to the same constant are the subject of the family
    // infer_consts/dup_outputs: here outputs have pairwise different values on the first run)
    let mut chosen: Vec<&V> = vec![cand.last().unwrap()];
    for _ in 0..extra_outputs {
        let v = cand[g.r.below(cand.len())];
        if !chosen.iter().any(|c| c.name == v.name || (c.shape == v.shape && c.val == v.val)) {
            chosen.push(v);
        }
    }
    let outs: Vec<String> = chosen.iter().map(|v| v.name.clone()).collect();
    g.b.m.outputs = outs;
    let mut runs = vec![g.feed.clone()];
    runs.extend(feeds(g.r, &g.b.m, nruns - 1, Vals::Int(-3, 3), &free_shapes(&g.b.m, &g.feed)));
    Some(CaseD { fam: fam.to_string(), pat: String::new(), variant, tol: "std".to_string(), model: g.b.m, runs })
}

fn free_shapes(m: &ModelD, feed: &[GT]) -> HashMap<String, Vec<usize>> {
    m.inputs.iter().zip(feed).map(|(v, t)| (v.name.clone(), t.shape.clone())).collect()
}

/// (ii) a random DAG.
pub fn dag(r: &mut Rng, _k: usize) -> CaseD {
    loop {
        let mut b = B::new();
        let nin = 1 + r.below(2);
        let mut free = HashMap::new();
        for i in 0..nin {
            let rank = r.below(3);
            let shape: Vec<usize> = (0..rank).map(|_| 1 + r.below(3)).collect();
            let ot = *r.pick(&[FLOAT, FLOAT, INT64, INT32]);
            let name = format!("in{i}");
            let d = match r.below(4) {
                0 if rank > 0 => {
                    let mut d = fx(&shape.iter().map(|x| *x as i64).collect::<Vec<_>>());
                    // one symbol per input: equal symbols would have to get equal sizes
                    d[0] = sym(&format!("N{i}"));
                    Some(d)
                }
                1 => None,
                _ => Some(fx(&shape.iter().map(|x| *x as i64).collect::<Vec<_>>())),
            };
            free.insert(name.clone(), shape.clone());
            b.input(&name, ot, d);
        }
        // the first input set fixes symbol sizes to the drawn shapes
        let feed: Vec<GT> = b.m.inputs.iter().map(|v| super::build::draw(r, v.ot, &free[&v.name], Vals::Int(-3, 3))).collect();
        let mut vals: Vec<V> = b
            .m
            .inputs
            .iter()
            .zip(&feed)
            .map(|(v, t)| V {
                name: v.name.clone(),
                ot: if v.ot == FLOAT { FLOAT } else { INT64 },
                shape: t.shape.clone(),
                val: match &t.data {
                    Data::I(x) => x.clone(),
                    Data::F(x) => x.iter().map(|f| *f as i64).collect(),
                },
                konst: false,
            })
            .collect();
        // constants, so that constant propagation has something to fold
        for _ in 0..1 + r.below(3) {
            let rank = r.below(3);
            let shape: Vec<usize> = (0..rank).map(|_| 1 + r.below(3)).collect();
            let ot = *r.pick(&[FLOAT, INT64]);
            let n = numel(&shape);
            let val: Vec<i64> = (0..n).map(|_| r.range(-3, 3)).collect();
            let name = if ot == FLOAT { b.cf(&shape, val.iter().map(|v| *v as f32).collect()) } else { b.c(GT::i(&shape, INT64, val.clone())) };
            vals.push(V { name, ot, shape, val, konst: true });
        }
        let nops = 3 + r.below(6);
        let mut g = Grow { b, vals, feed, r };
        let mut made = 0;
        let mut attempts = 0;
        while made < nops && attempts < 60 {
            attempts += 1;
            if dag_step(&mut g) {
                made += 1;
            }
        }
        let extra = g.r.below(3);
        if let Some(c) = finish(g, "dag", format!("n{}", made.min(9)), 3, extra) {
            return c;
        }
    }
}

/// (iii) Shape -> Gather/Slice -> arithmetic -> Equal -> Where -> Reshape/Expand/ConstantOfShape.
pub fn shape_arith(r: &mut Rng, _k: usize) -> CaseD {
    loop {
        let mut b = B::new();
        let rank = 1 + r.below(3);
        let mut decl = Vec::new();
        let mut shape = Vec::new();
        for i in 0..rank {
            let d = 1 + r.below(3);
            shape.push(d);
            if r.chance(1, 2) {
                decl.push(sym(["N", "M", "N"][i]));
            } else {
                decl.push(DimD::Fixed(d as i64));
            }
        }
        // same symbol => same size
        for i in 0..rank {
            for j in 0..i {
                if decl[i] == decl[j] && matches!(decl[i], DimD::Sym(_)) {
                    shape[i] = shape[j];
                }
            }
        }
        let ot = *r.pick(&[FLOAT, FLOAT, INT64]);
        let x = b.input("x", ot, Some(decl));
        let feed = vec![super::build::draw(r, ot, &shape, Vals::Int(-3, 3))];
        let xv = V { name: x.clone(), ot: if ot == FLOAT { FLOAT } else { INT64 }, shape: shape.clone(), val: vec![], konst: false };
        let mut g = Grow { b, vals: vec![xv.clone()], feed, r };
        let via = g.r.chance(1, 3);
        let src = if via {
            if !g.try_node(|b, _| Some((b.op("Neg", &[&x]), false))) {
                continue;
            }
            g.vals.last().unwrap().name.clone()
        } else {
            x.clone()
        };
        if !g.try_node(|b, _| Some((b.op("Shape", &[&src]), false))) {
            continue;
        }
        let s = g.vals.last().unwrap().clone();
        // extract a dim (scalar) or a sub-vector
        let scalar = g.r.chance(2, 3);
        let ok = if scalar {
            g.try_node(|b, r| {
                let idx = b.c(GT::i64_scalar(r.range(-(rank as i64), rank as i64 - 1)));
                Some((b.opa("Gather", &[&s.name, &idx], vec![("axis", AV::Int(0))]), false))
            })
        } else {
            g.try_node(|b, r| {
                let a = r.range(-(rank as i64), rank as i64 - 1);
                let st = b.ci(&[a]);
                let en = b.ci(&[*r.pick(&[a + 1, a + 2, super::gen_fusions::OPEN_END, rank as i64])]);
                Some((b.op("Slice", &[&s.name, &st, &en]), false))
            })
        };
        if !ok {
            continue;
        }
        // arithmetic chain with negative and zero constants. When a comparison follows, only
        // non-negative scalings are used and the compared value is a 1-vector: comparisons of
        // negated dims and all-scalar Where are the subject of the family infer_consts.
        let compare = g.r.chance(3, 5);
        if compare && scalar {
            let e = g.vals.last().unwrap().clone();
            if !g.try_node(|b, _| {
                let ax = b.ci(&[0]);
                Some((b.op("Unsqueeze", &[&e.name, &ax]), false))
            }) {
                continue;
            }
        }
        let depth = if compare { g.r.below(3) } else { 1 + g.r.below(3) };
        let mut arith = 0;
        for _ in 0..depth {
            let e = g.vals.last().unwrap().clone();
            arith += g.try_node(|b, r| {
                let cv = if compare { r.range(0, 3) } else { r.range(-3, 3) };
                let c = if e.shape.is_empty() { b.c(GT::i64_scalar(cv)) } else { b.ci(&[cv]) };
                match if compare { 2 + r.below(5) } else { r.below(7) } {
                    0 => Some((b.op("Neg", &[&e.name]), false)),
                    1 => Some((b.op("Sub", &[&c, &e.name]), false)),
                    2 => Some((b.op("Sub", &[&e.name, &c]), false)),
                    3 => Some((b.op("Mul", &[&e.name, &c]), false)),
                    4 => Some((b.op("Div", &[&e.name, &c]), false)),
                    5 => Some((b.op("Mul", &[&c, &e.name]), false)),
                    _ => Some((b.op("Add", &[&e.name, &c]), false)),
                }
            }) as usize;
        }
        let e = g.vals.last().unwrap().clone();
        // comparison and selection
        let mut sel = e.clone();
        if compare {
            let cmp = *g.r.pick(&["Equal", "Equal", "Greater", "Less"]);
            let ok = g.try_node(|b, r| {
                let target = if r.chance(1, 2) && !e.val.is_empty() { e.val[0] } else { r.range(-3, 3) };
                let c = if e.shape.is_empty() { b.c(GT::i64_scalar(target)) } else { b.ci(&[target]) };
                Some((b.op(cmp, &[&e.name, &c]), false))
            });
            if ok {
                let c = g.vals.pop().unwrap();
                g.try_node(|b, r| {
                    let alt = if e.shape.is_empty() { b.c(GT::i64_scalar(r.range(0, 3))) } else { b.ci(&[r.range(0, 3)]) };
                    let other = if r.chance(1, 2) { e.name.clone() } else { if e.shape.is_empty() { b.c(GT::i64_scalar(r.range(-1, 3))) } else { b.ci(&[r.range(-1, 3)]) } };
                    Some((b.op("Where", &[&c.name, &alt, &other]), false))
                });
                sel = g.vals.last().unwrap().clone();
            }
        }
        // use of the selected value
        let n = numel(&shape) as i64;
        // A comparison of an ARITHMETIC expression of a dim is folded by shape inference from
        // SymExpr::range(), which is unsound for Add/Sub/Mul/Div (C11/C10 findings): those chains form
        // their own pattern class and only output the selected value (no Reshape/Expand downstream).
        let pclass = if compare && arith > 0 { "cmp_after_arith" } else if compare { "cmp_plain" } else { "arith_only" };
        let use_kind = if pclass == "cmp_after_arith" { 5 } else { g.r.below(6) };
        let used = match use_kind {
            0 => g.try_node(|b, _| {
                // Reshape(x, [sel, -1])
                let v = if sel.shape.is_empty() {
                    let ax = b.ci(&[0]);
                    b.op("Unsqueeze", &[&sel.name, &ax])
                } else {
                    sel.name.clone()
                };
                let m1 = b.ci(&[-1]);
                let t = b.opa("Concat", &[&v, &m1], vec![("axis", AV::Int(0))]);
                Some((b.op("Reshape", &[&x, &t]), false))
            }),
            1 => g.try_node(|b, _| {
                let v = if sel.shape.is_empty() {
                    let ax = b.ci(&[0]);
                    b.op("Unsqueeze", &[&sel.name, &ax])
                } else {
                    sel.name.clone()
                };
                Some((b.opa("ConstantOfShape", &[&v], vec![("value", AV::Tens(GT::i(&[1], INT64, vec![5])))]), false))
            }),
            // (an Expand whose shape vector is shorter than the data rank is infer_consts/expand_short_shape)
            2 if sel.shape.is_empty() || !sel.val.is_empty() => g.try_node(|b, _| {
                let v = if sel.shape.is_empty() {
                    let ax = b.ci(&[0]);
                    b.op("Unsqueeze", &[&sel.name, &ax])
                } else {
                    sel.name.clone()
                };
                let one = b.c(GT::i(&[1], INT64, vec![7]));
                Some((b.op("Expand", &[&one, &v]), false))
            }),
            3 if sel.shape.is_empty() => g.try_node(|b, r| {
                let z = b.c(GT::i64_scalar(r.range(-1, 1)));
                let d = b.c(GT::i64_scalar(*r.pick(&[1i64, 1, 2, -1])));
                Some((b.op("Range", &[&z, &sel.name, &d]), false))
            }),
            4 => g.try_node(|b, _| {
                // Reshape(x, [n / something]) style: reshape to [-1, sel] when sel divides
                let v = if sel.shape.is_empty() {
                    let ax = b.ci(&[0]);
                    b.op("Unsqueeze", &[&sel.name, &ax])
                } else {
                    sel.name.clone()
                };
                let m1 = b.ci(&[-1]);
                let t = b.opa("Concat", &[&m1, &v], vec![("axis", AV::Int(0))]);
                Some((b.op("Reshape", &[&x, &t]), false))
            }),
            _ => false,
        };
        let _ = n;
        let mut outs = vec![sel.name.clone()];
        if used {
            outs.push(g.vals.last().unwrap().name.clone());
        }
        if g.r.chance(1, 3) {
            outs.push(e.name.clone());
        }
        outs.dedup();
        // outputs with pairwise different values (see `finish`)
        let mut keep: Vec<String> = Vec::new();
        for o in &outs {
            let v = g.vals.iter().find(|v| &v.name == o);
            let dup = keep.iter().any(|k| {
                let kv = g.vals.iter().find(|v| &v.name == k);
                match (v, kv) {
                    (Some(a), Some(b)) => a.shape == b.shape && a.val == b.val,
                    _ => false,
                }
            });
            if !dup {
                keep.push(o.clone());
            }
        }
        let mut outs = keep;
        // (a Slice(Shape(x)) value that is itself a graph output is shape_slice/*_output)
        let produced: Vec<String> = g.b.m.nodes.iter().filter(|n| n.op != "Slice").flat_map(|n| n.outs.clone()).collect();
        outs.retain(|o| produced.contains(o));
        if outs.is_empty() || g.b.m.nodes.len() < 3 {
            continue;
        }
        g.b.m.outputs = outs;
        let mut runs = vec![g.feed.clone()];
        runs.extend(feeds(g.r, &g.b.m, 2, Vals::Int(-3, 3), &HashMap::new()));
        let _ = (scalar, via, used);
        let variant = pclass.to_string();
        return CaseD { fam: "shape_arith".to_string(), pat: String::new(), variant, tol: "std".to_string(), model: g.b.m, runs };
    }
}

#[allow(dead_code)]
fn _unused() {
    let _ = (BOOL, INT32);
}
