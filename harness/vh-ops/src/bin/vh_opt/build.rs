//! Builder DSL and input generation shared by the C01 model generators.

use std::collections::HashMap;

use vcommon::Rng;
use vcommon::onnx;

use super::model::{AV, CaseD, Data, DimD, GT, ModelD, NodeD, ValD};

pub struct B {
    pub m: ModelD,
    /// intended shape of each graph input (used for the first run and for undeclared shapes)
    pub shapes: HashMap<String, Vec<usize>>,
    k: usize,
}

pub fn fx(d: &[i64]) -> Vec<DimD> {
    d.iter().map(|n| DimD::Fixed(*n)).collect()
}
pub fn sym(s: &str) -> DimD {
    DimD::Sym(s.to_string())
}

impl B {
    pub fn new() -> B {
        B { m: ModelD::default(), shapes: HashMap::new(), k: 0 }
    }
    pub fn fresh(&mut self, p: &str) -> String {
        self.k += 1;
        format!("{p}{}", self.k)
    }
    pub fn input(&mut self, name: &str, ot: i32, decl: Option<Vec<DimD>>) -> String {
        self.m.inputs.push(ValD { name: name.to_string(), ot, decl });
        name.to_string()
    }
    pub fn input_f(&mut self, name: &str, decl: Vec<DimD>) -> String {
        self.input(name, onnx::FLOAT, Some(decl))
    }
    /// Input with an intended shape; the declaration is fixed, absent, or (rank >= 2 and
    /// `allow_sym`) symbolic in the first dimension.
    pub fn input_s(&mut self, r: &mut Rng, name: &str, ot: i32, shape: &[usize], allow_sym: bool) -> String {
        let fixed = fx(&shape.iter().map(|x| *x as i64).collect::<Vec<_>>());
        let d = match r.below(4) {
            0 if allow_sym && shape.len() >= 2 => {
                let mut d = fixed;
                d[0] = sym("N");
                Some(d)
            }
            1 => None,
            _ => Some(fixed),
        };
        self.shapes.insert(name.to_string(), shape.to_vec());
        self.input(name, ot, d)
    }
    pub fn c(&mut self, t: GT) -> String {
        let n = self.fresh("c");
        self.m.inits.push((n.clone(), t));
        n
    }
    pub fn cf(&mut self, shape: &[usize], v: Vec<f32>) -> String {
        self.c(GT::f(shape, v))
    }
    /// single-element float constant of the given shape
    pub fn cs(&mut self, shape: &[usize], v: f32) -> String {
        let n: usize = shape.iter().product();
        self.c(GT::f(shape, vec![v; n]))
    }
    pub fn ci(&mut self, v: &[i64]) -> String {
        self.c(GT::i64s(v))
    }
    pub fn opn(&mut self, op: &str, ins: &[&str], attrs: Vec<(&str, AV)>, nout: usize) -> Vec<String> {
        let outs: Vec<String> = (0..nout).map(|_| self.fresh("v")).collect();
        self.m.nodes.push(NodeD {
            op: op.to_string(),
            ins: ins.iter().map(|s| s.to_string()).collect(),
            outs: outs.clone(),
            attrs: attrs.into_iter().map(|(n, v)| (n.to_string(), v)).collect(),
        });
        outs
    }
    pub fn opa(&mut self, op: &str, ins: &[&str], attrs: Vec<(&str, AV)>) -> String {
        self.opn(op, ins, attrs, 1).remove(0)
    }
    pub fn op(&mut self, op: &str, ins: &[&str]) -> String {
        self.opa(op, ins, vec![])
    }
    pub fn out(&mut self, v: &str) {
        self.m.outputs.push(v.to_string());
    }
    pub fn vinfo(&mut self, name: &str, ot: i32, decl: Vec<DimD>) {
        self.m.vinfo.push(ValD { name: name.to_string(), ot, decl: Some(decl) });
    }
    /// commutative binary op with a chosen operand order
    pub fn bin(&mut self, op: &str, a: &str, b: &str, swap: bool) -> String {
        if swap { self.op(op, &[b, a]) } else { self.op(op, &[a, b]) }
    }
}

/// How input data is drawn.
#[derive(Clone, Copy, PartialEq)]
pub enum Vals {
    /// small integers (float tensors hold integer values): the exact subset
    Int(i64, i64),
    /// dyadic rationals k/8 in [-3, 3] for the float (transcendental) families
    Frac,
    /// positive dyadic rationals
    PosFrac,
    /// integers plus -inf / NaN sprinkled in (softmax families)
    WithInf,
}

pub fn draw(r: &mut Rng, ot: i32, shape: &[usize], vals: Vals) -> GT {
    let n: usize = shape.iter().product();
    match ot {
        onnx::FLOAT | onnx::DOUBLE => {
            let v: Vec<f32> = (0..n)
                .map(|_| match vals {
                    Vals::Int(lo, hi) => r.range(lo, hi) as f32,
                    Vals::Frac => r.range(-24, 24) as f32 / 8.0,
                    Vals::PosFrac => r.range(1, 24) as f32 / 8.0,
                    Vals::WithInf => match r.below(6) {
                        0 => f32::NEG_INFINITY,
                        _ => r.range(-3, 3) as f32,
                    },
                })
                .collect();
            GT { shape: shape.to_vec(), ot, data: Data::F(v) }
        }
        onnx::BOOL => GT::i(shape, ot, (0..n).map(|_| r.range(0, 1)).collect()),
        onnx::UINT8 => GT::i(shape, ot, (0..n).map(|_| r.range(0, 5)).collect()),
        _ => {
            let (lo, hi) = if let Vals::Int(lo, hi) = vals { (lo, hi) } else { (-3, 3) };
            GT::i(shape, ot, (0..n).map(|_| r.range(lo, hi)).collect())
        }
    }
}

/// Generate `nruns` conforming input sets: symbolic dims get one size per run (same symbol = same
/// size, as ONNX requires), undeclared shapes use `free` (per input name).
pub fn feeds(r: &mut Rng, m: &ModelD, nruns: usize, vals: Vals, free: &HashMap<String, Vec<usize>>) -> Vec<Vec<GT>> {
    (0..nruns)
        .map(|run| {
            let mut syms: HashMap<String, usize> = HashMap::new();
            m.inputs
                .iter()
                .map(|v| {
                    let intended = free.get(&v.name);
                    let shape: Vec<usize> = match &v.decl {
                        Some(d) if run == 0 && intended.is_some_and(|s| s.len() == d.len()) => intended.unwrap().clone(),
                        Some(d) => d
                            .iter()
                            .map(|x| match x {
                                DimD::Fixed(n) => *n as usize,
                                DimD::Sym(s) => *syms.entry(s.clone()).or_insert_with(|| 1 + ((run + r.below(3)) % 3)),
                            })
                            .collect(),
                        None => free.get(&v.name).cloned().unwrap_or_else(|| vec![2]),
                    };
                    draw(r, v.ot, &shape, vals)
                })
                .collect()
        })
        .collect()
}

pub fn case(fam: &str, variant: String, tol: &str, b: B, r: &mut Rng, nruns: usize, vals: Vals) -> CaseD {
    let runs = feeds(r, &b.m, nruns, vals, &b.shapes);
    {
        // variant strings of the form "pat/pclass" carry the sub-pattern
        let (pat, variant) = match variant.split_once('/') {
            Some((p, v)) => (p.to_string(), v.to_string()),
            None => (String::new(), variant),
        };
        CaseD { fam: fam.to_string(), pat, variant, tol: tol.to_string(), model: b.m, runs }
    }
}

pub fn shape_tag(s: &[usize]) -> String {
    if s.is_empty() { "s".to_string() } else { s.iter().map(|d| d.to_string()).collect::<Vec<_>>().join("x") }
}
