//! Model description used by the C01 engine: a small ONNX graph plus the concrete inputs of
//! each run. It is (a) encoded to ONNX bytes with `vcommon::onnx`, (b) logged completely in the
//! `case` record so that the trace spec can evaluate the graph itself, and (c) round-trippable
//! through JSON so that a logged case (or a candidate produced by TLC from FusionRules.tla) can be
//! re-run with `--cases-file`.

use vcommon::onnx::{self, Attr, Dim, Graph, Node, TensorData, ValueInfo};
use vcommon::{Value as J, json};

#[derive(Clone, Debug, PartialEq)]
pub enum Data {
    /// integer element types (i32 / i64 / bool / i8 / u8)
    I(Vec<i64>),
    /// f32 (and f64 declared tensors: values are f32-representable)
    F(Vec<f32>),
}

/// A tensor with its declared ONNX element type.
#[derive(Clone, Debug, PartialEq)]
pub struct GT {
    pub shape: Vec<usize>,
    pub ot: i32,
    pub data: Data,
}

pub fn dt_name(ot: i32) -> &'static str {
    match ot {
        onnx::FLOAT | onnx::DOUBLE => "f32",
        onnx::INT32 | onnx::INT64 | onnx::BOOL => "i32",
        onnx::INT8 => "i8",
        onnx::UINT8 => "u8",
        _ => "unknown",
    }
}

/// (exact integer value or 0, is-not-an-exact-small-integer)
pub fn f_ival(x: f32) -> (i64, bool) {
    if x.is_finite() && x.fract() == 0.0 && x.abs() < (1u64 << 24) as f32 {
        (x as i64, false)
    } else {
        (0, true)
    }
}

impl GT {
    pub fn f(shape: &[usize], v: Vec<f32>) -> GT {
        assert_eq!(shape.iter().product::<usize>(), v.len(), "shape {shape:?} vs {} values", v.len());
        GT { shape: shape.to_vec(), ot: onnx::FLOAT, data: Data::F(v) }
    }
    pub fn i(shape: &[usize], ot: i32, v: Vec<i64>) -> GT {
        assert_eq!(shape.iter().product::<usize>(), v.len(), "shape {shape:?} vs {} values", v.len());
        GT { shape: shape.to_vec(), ot, data: Data::I(v) }
    }
    pub fn i64s(v: &[i64]) -> GT {
        GT::i(&[v.len()], onnx::INT64, v.to_vec())
    }
    pub fn i64_scalar(v: i64) -> GT {
        GT::i(&[], onnx::INT64, vec![v])
    }

    /// Fields shared by every logged tensor: shape, dtype, ot, data (exact integer values; 0 for a
    /// non-integer float), nonint (number of such elements), bits (f32 bit patterns as i32; [] for
    /// integer tensors).
    pub fn log_fields(&self, m: &mut serde_json::Map<String, J>) {
        m.insert("shape".into(), json!(self.shape));
        m.insert("dtype".into(), json!(dt_name(self.ot)));
        m.insert("ot".into(), json!(self.ot));
        match &self.data {
            Data::I(v) => {
                m.insert("data".into(), json!(v));
                m.insert("nonint".into(), json!(0));
                m.insert("bits".into(), json!([]));
            }
            Data::F(v) => {
                let mut nonint = 0;
                let d: Vec<i64> = v
                    .iter()
                    .map(|x| {
                        let (i, bad) = f_ival(*x);
                        if bad {
                            nonint += 1;
                        }
                        i
                    })
                    .collect();
                m.insert("data".into(), json!(d));
                m.insert("nonint".into(), json!(nonint));
                m.insert("bits".into(), json!(v.iter().map(|x| x.to_bits() as i32).collect::<Vec<i32>>()));
            }
        }
    }
    pub fn json(&self) -> J {
        let mut m = serde_json::Map::new();
        m.insert("p".into(), json!(true));
        m.insert("den".into(), json!(1));
        self.log_fields(&mut m);
        J::Object(m)
    }
    pub fn from_json(j: &J) -> GT {
        let shape: Vec<usize> = j["shape"].as_array().unwrap().iter().map(|x| x.as_u64().unwrap() as usize).collect();
        // candidates written by TLC carry only dtype; logged cases carry ot
        let ot = match j.get("ot").and_then(|x| x.as_i64()) {
            Some(o) if o != 0 => o as i32,
            _ => match j["dtype"].as_str().unwrap_or("f32") {
                "f32" => onnx::FLOAT,
                "i32" => onnx::INT64,
                "i8" => onnx::INT8,
                "u8" => onnx::UINT8,
                other => panic!("bad dtype {other}"),
            },
        };
        let ints: Vec<i64> = j["data"].as_array().unwrap().iter().map(|x| x.as_i64().unwrap()).collect();
        let data = if dt_name(ot) == "f32" {
            let bits = j.get("bits").and_then(|b| b.as_array()).cloned().unwrap_or_default();
            if bits.len() == ints.len() && !bits.is_empty() {
                Data::F(bits.iter().map(|b| f32::from_bits(b.as_i64().unwrap() as i32 as u32)).collect())
            } else {
                Data::F(ints.iter().map(|v| *v as f32).collect())
            }
        } else {
            Data::I(ints)
        };
        GT { shape, ot, data }
    }

    pub fn to_onnx(&self, name: &str) -> onnx::Tensor {
        let data = match (&self.data, self.ot) {
            (Data::F(v), onnx::FLOAT) => TensorData::F32(v.clone()),
            (Data::F(v), onnx::DOUBLE) => {
                let mut raw = Vec::new();
                for x in v {
                    raw.extend_from_slice(&(*x as f64).to_le_bytes());
                }
                TensorData::Raw(onnx::DOUBLE, raw)
            }
            (Data::I(v), onnx::INT32) => TensorData::I32(v.iter().map(|x| *x as i32).collect()),
            (Data::I(v), onnx::INT64) => TensorData::I64(v.clone()),
            (Data::I(v), onnx::BOOL) => TensorData::Bool(v.iter().map(|x| *x != 0).collect()),
            (Data::I(v), onnx::INT8) => TensorData::I8(v.iter().map(|x| *x as i8).collect()),
            (Data::I(v), onnx::UINT8) => TensorData::U8(v.iter().map(|x| *x as u8).collect()),
            other => panic!("unsupported tensor encoding {:?}", other.1),
        };
        onnx::Tensor { name: name.to_string(), dims: self.shape.iter().map(|d| *d as i64).collect(), data }
    }

    pub fn to_value(&self) -> rten::Value {
        use rten_tensor::Tensor;
        let sh = self.shape.as_slice();
        match (&self.data, dt_name(self.ot)) {
            (Data::F(v), _) => Tensor::from_data(sh, v.clone()).into(),
            (Data::I(v), "i32") => Tensor::from_data(sh, v.iter().map(|x| *x as i32).collect::<Vec<_>>()).into(),
            (Data::I(v), "i8") => Tensor::from_data(sh, v.iter().map(|x| *x as i8).collect::<Vec<_>>()).into(),
            (Data::I(v), "u8") => Tensor::from_data(sh, v.iter().map(|x| *x as u8).collect::<Vec<_>>()).into(),
            _ => panic!("bad tensor"),
        }
    }
}

#[derive(Clone, Debug)]
pub enum AV {
    Int(i64),
    Ints(Vec<i64>),
    Flt(f32),
    Str(String),
    Tens(GT),
    Graph(Box<ModelD>),
}

#[derive(Clone, Debug)]
pub struct NodeD {
    pub op: String,
    /// "" = omitted optional input
    pub ins: Vec<String>,
    pub outs: Vec<String>,
    pub attrs: Vec<(String, AV)>,
}

#[derive(Clone, Debug, PartialEq)]
pub enum DimD {
    Fixed(i64),
    Sym(String),
}

#[derive(Clone, Debug)]
pub struct ValD {
    pub name: String,
    pub ot: i32,
    /// None = no declared shape
    pub decl: Option<Vec<DimD>>,
}

#[derive(Clone, Debug, Default)]
pub struct ModelD {
    pub nodes: Vec<NodeD>,
    pub inits: Vec<(String, GT)>,
    pub inputs: Vec<ValD>,
    pub outputs: Vec<String>,
    /// value_info entries for intermediate values
    pub vinfo: Vec<ValD>,
}

fn dims_json(d: &Option<Vec<DimD>>) -> (bool, Vec<i64>, Vec<String>) {
    match d {
        None => (false, vec![], vec![]),
        Some(v) => (
            true,
            v.iter().map(|x| if let DimD::Fixed(n) = x { *n } else { -1 }).collect(),
            v.iter().map(|x| if let DimD::Sym(s) = x { s.clone() } else { String::new() }).collect(),
        ),
    }
}

fn dims_from_json(j: &J) -> Option<Vec<DimD>> {
    if !j["hasdecl"].as_bool().unwrap_or(false) {
        return None;
    }
    let decl = j["decl"].as_array().unwrap();
    let syms = j["syms"].as_array().cloned().unwrap_or_default();
    Some(
        decl.iter()
            .enumerate()
            .map(|(k, d)| {
                let n = d.as_i64().unwrap();
                if n >= 0 {
                    DimD::Fixed(n)
                } else {
                    DimD::Sym(syms.get(k).and_then(|s| s.as_str()).unwrap_or("S").to_string())
                }
            })
            .collect(),
    )
}

impl ValD {
    fn to_onnx(&self) -> ValueInfo {
        ValueInfo::new(
            &self.name,
            self.ot,
            self.decl.as_ref().map(|v| {
                v.iter()
                    .map(|d| match d {
                        DimD::Fixed(n) => Dim::Fixed(*n),
                        DimD::Sym(s) => Dim::Sym(s.clone()),
                    })
                    .collect()
            }),
        )
    }
    fn json(&self) -> J {
        let (has, decl, syms) = dims_json(&self.decl);
        json!({"name": self.name, "ot": self.ot, "dtype": dt_name(self.ot), "hasdecl": has, "decl": decl, "syms": syms})
    }
    fn from_json(j: &J) -> ValD {
        ValD {
            name: j["name"].as_str().unwrap().to_string(),
            ot: j.get("ot").and_then(|x| x.as_i64()).map(|x| x as i32).unwrap_or_else(|| match j["dtype"].as_str().unwrap_or("f32") {
                "f32" => onnx::FLOAT,
                "i32" => onnx::INT64,
                "i8" => onnx::INT8,
                _ => onnx::UINT8,
            }),
            decl: dims_from_json(j),
        }
    }
}

impl NodeD {
    /// `attrs` is what the TLA+ evaluator reads (OnnxOps convention: every attribute a sequence,
    /// float attributes by their integer value); `araw` is the lossless form for rebuilding.
    fn json(&self) -> J {
        let mut attrs = serde_json::Map::new();
        let mut araw = Vec::new();
        let mut inexact = false;
        for (n, v) in &self.attrs {
            match v {
                AV::Int(i) => {
                    attrs.insert(n.clone(), json!([i]));
                    araw.push(json!({"n": n, "k": "int", "i": i, "l": [], "s": "", "t": [], "g": []}));
                }
                AV::Ints(l) => {
                    attrs.insert(n.clone(), json!([l]));
                    araw.push(json!({"n": n, "k": "ints", "i": 0, "l": l, "s": "", "t": [], "g": []}));
                }
                AV::Flt(f) => {
                    let (iv, bad) = f_ival(*f);
                    if bad {
                        inexact = true;
                    }
                    attrs.insert(n.clone(), json!([iv]));
                    araw.push(json!({"n": n, "k": "flt", "i": f.to_bits() as i32, "l": [], "s": "", "t": [], "g": []}));
                }
                AV::Str(s) => {
                    attrs.insert(n.clone(), json!([s]));
                    araw.push(json!({"n": n, "k": "str", "i": 0, "l": [], "s": s, "t": [], "g": []}));
                }
                AV::Tens(t) => {
                    attrs.insert(n.clone(), json!([t.json()]));
                    araw.push(json!({"n": n, "k": "tens", "i": 0, "l": [], "s": "", "t": [t.json()], "g": []}));
                }
                AV::Graph(g) => {
                    inexact = true;
                    araw.push(json!({"n": n, "k": "graph", "i": 0, "l": [], "s": "", "t": [], "g": [g.json()]}));
                }
            }
        }
        // a float attribute without an exact integer value / a subgraph: outside the exact subset
        attrs.insert("_inexact".into(), if inexact { json!([1]) } else { json!([]) });
        json!({"op": self.op, "ins": self.ins, "outs": self.outs, "attrs": J::Object(attrs), "araw": araw})
    }
    fn from_json(j: &J) -> NodeD {
        let strs = |a: &J| -> Vec<String> { a.as_array().unwrap().iter().map(|s| s.as_str().unwrap().to_string()).collect() };
        let mut attrs = Vec::new();
        if let Some(raw) = j.get("araw").and_then(|r| r.as_array()) {
            for a in raw {
                let n = a["n"].as_str().unwrap().to_string();
                let v = match a["k"].as_str().unwrap() {
                    "int" => AV::Int(a["i"].as_i64().unwrap()),
                    "ints" => AV::Ints(a["l"].as_array().unwrap().iter().map(|x| x.as_i64().unwrap()).collect()),
                    "flt" => AV::Flt(f32::from_bits(a["i"].as_i64().unwrap() as i32 as u32)),
                    "str" => AV::Str(a["s"].as_str().unwrap().to_string()),
                    "tens" => AV::Tens(GT::from_json(&a["t"][0])),
                    "graph" => AV::Graph(Box::new(ModelD::from_json(&a["g"][0]))),
                    other => panic!("bad attr kind {other}"),
                };
                attrs.push((n, v));
            }
        } else if let Some(m) = j.get("attrs").and_then(|r| r.as_object()) {
            // candidates from TLC: ints, int lists, strings and tensors only
            for (n, v) in m {
                if n.starts_with('_') {
                    continue;
                }
                let Some(v) = v.as_array().and_then(|a| a.first()) else { continue };
                let av = if let Some(i) = v.as_i64() {
                    if n == "alpha" || n == "epsilon" { AV::Flt(i as f32) } else { AV::Int(i) }
                } else if let Some(s) = v.as_str() {
                    AV::Str(s.to_string())
                } else if let Some(l) = v.as_array() {
                    AV::Ints(l.iter().map(|x| x.as_i64().unwrap()).collect())
                } else {
                    AV::Tens(GT::from_json(v))
                };
                attrs.push((n.clone(), av));
            }
        }
        NodeD { op: j["op"].as_str().unwrap().to_string(), ins: strs(&j["ins"]), outs: strs(&j["outs"]), attrs }
    }
    fn to_onnx(&self) -> Node {
        let ins: Vec<&str> = self.ins.iter().map(|s| s.as_str()).collect();
        let outs: Vec<&str> = self.outs.iter().map(|s| s.as_str()).collect();
        let mut n = Node::new(&self.op, &ins, &outs);
        for (name, v) in &self.attrs {
            let a = match v {
                AV::Int(i) => Attr::Int(*i),
                AV::Ints(l) => Attr::Ints(l.clone()),
                AV::Flt(f) => Attr::Float(*f),
                AV::Str(s) => Attr::Str(s.clone()),
                AV::Tens(t) => Attr::Tensor(t.to_onnx("")),
                AV::Graph(g) => Attr::Graph(g.to_graph()),
            };
            n = n.attr(name, a);
        }
        n
    }
}

impl ModelD {
    pub fn to_graph(&self) -> Graph {
        let mut g = Graph::default();
        for n in &self.nodes {
            g.nodes.push(n.to_onnx());
        }
        for (name, t) in &self.inits {
            g.initializers.push(t.to_onnx(name));
        }
        for v in &self.inputs {
            g.inputs.push(v.to_onnx());
        }
        for o in &self.outputs {
            g.outputs.push(ValueInfo::new(o, 0, None));
        }
        for v in &self.vinfo {
            g.value_info.push(v.to_onnx());
        }
        g
    }
    pub fn to_bytes(&self) -> Vec<u8> {
        self.to_graph().to_model()
    }
    pub fn json(&self) -> J {
        let inits: Vec<J> = self
            .inits
            .iter()
            .map(|(n, t)| {
                let mut m = serde_json::Map::new();
                m.insert("name".into(), json!(n));
                t.log_fields(&mut m);
                J::Object(m)
            })
            .collect();
        json!({
            "nodes": self.nodes.iter().map(|n| n.json()).collect::<Vec<_>>(),
            "inits": inits,
            "inputs": self.inputs.iter().map(|v| v.json()).collect::<Vec<_>>(),
            "outputs": self.outputs,
            "vinfo": self.vinfo.iter().map(|v| v.json()).collect::<Vec<_>>(),
        })
    }
    pub fn from_json(j: &J) -> ModelD {
        ModelD {
            nodes: j["nodes"].as_array().unwrap().iter().map(NodeD::from_json).collect(),
            inits: j["inits"].as_array().unwrap().iter().map(|t| (t["name"].as_str().unwrap().to_string(), GT::from_json(t))).collect(),
            inputs: j["inputs"].as_array().unwrap().iter().map(ValD::from_json).collect(),
            outputs: j["outputs"].as_array().unwrap().iter().map(|s| s.as_str().unwrap().to_string()).collect(),
            vinfo: j.get("vinfo").and_then(|v| v.as_array()).map(|a| a.iter().map(ValD::from_json).collect()).unwrap_or_default(),
        }
    }
}

/// One generated program: a model and the inputs of its runs.
#[derive(Clone, Debug)]
pub struct CaseD {
    /// template family (fusion / rewrite aimed at), part of the signature
    pub fam: String,
    /// sub-pattern within the family (e.g. "erf" / "approx", "ln" / "rms"), part of the signature
    pub pat: String,
    /// perturbation class ("pclass"), part of the signature
    pub variant: String,
    /// "exact" | "float" | "loose": which numeric bound the spec applies (see OptimizeContract.tla)
    pub tol: String,
    pub model: ModelD,
    /// per run: one tensor per graph input, in order
    pub runs: Vec<Vec<GT>>,
}

impl CaseD {
    /// JSON of the `case` record of run `r` (without ev/id).
    pub fn json(&self, r: usize) -> J {
        let mut j = self.model.json();
        let m = j.as_object_mut().unwrap();
        m.insert("fam".into(), json!(self.fam));
        m.insert("variant".into(), json!(self.variant));
        m.insert("pat".into(), json!(self.pat));
        m.insert("tol".into(), json!(self.tol));
        m.insert("run".into(), json!(r));
        let vals: Vec<J> = self.runs[r]
            .iter()
            .zip(&self.model.inputs)
            .map(|(t, v)| {
                let mut o = serde_json::Map::new();
                o.insert("name".into(), json!(v.name));
                t.log_fields(&mut o);
                J::Object(o)
            })
            .collect();
        m.insert("feeds".into(), json!(vals));
        j
    }
    /// Rebuild from a logged `case` record (one run) or from a candidate written by TLC.
    pub fn from_json(j: &J) -> CaseD {
        let model = ModelD::from_json(j);
        let feeds: Vec<GT> = j["feeds"].as_array().unwrap().iter().map(GT::from_json).collect();
        // optional: several input sets to be run one after the other on the same loaded models
        let runs: Vec<Vec<GT>> = match j.get("feeds_list").and_then(|l| l.as_array()) {
            Some(l) if !l.is_empty() => l.iter().map(|fs| fs.as_array().unwrap().iter().map(GT::from_json).collect()).collect(),
            _ => vec![feeds],
        };
        CaseD {
            fam: j["fam"].as_str().unwrap_or("replay").to_string(),
            variant: j["variant"].as_str().unwrap_or("").to_string(),
            pat: j["pat"].as_str().unwrap_or("").to_string(),
            tol: j["tol"].as_str().unwrap_or("float").to_string(),
            model,
            runs,
        }
    }
}
