//! Loads a model under the six configurations {optimize off,on} x {shape inference off,on,strict},
//! runs it on each input set and produces the `case` / `ret` records. Nothing is judged here:
//! `specs/opt/Trace_Optimize.tla` decides (OptimizeContract + graph evaluation with OnnxOps).

use rten::{Model, ModelOptions, ShapeInferenceMode, Value};
use vcommon::{Value as J, guarded, json};

use super::model::{CaseD, f_ival};

pub const CFGS: [(bool, &str); 6] = [(false, "off"), (false, "on"), (false, "strict"), (true, "off"), (true, "on"), (true, "strict")];

fn trunc(s: &str) -> String {
    s.chars().filter(|c| c.is_ascii() && !c.is_ascii_control() && *c != '"' && *c != '\\').take(220).collect()
}

/// Error message with node names / numbers removed: part of the signature of a failing case.
pub fn msg_class(s: &str) -> String {
    let mut out = String::new();
    let mut skip_next = false;
    for w in s.split(|c: char| c.is_whitespace()) {
        // the word after "operator" is a node name
        if skip_next {
            skip_next = false;
            continue;
        }
        if w == "operator" {
            skip_next = true;
        }
        if w.chars().any(|c| c.is_ascii_digit()) || w.starts_with('[') || w.ends_with(']') {
            continue;
        }
        let w: String = w.chars().filter(|c| c.is_ascii_alphabetic() || *c == '_').collect();
        if w.is_empty() {
            continue;
        }
        if !out.is_empty() {
            out.push('_');
        }
        out.push_str(&w);
        if out.len() > 70 {
            break;
        }
    }
    out.chars().take(80).collect()
}

pub enum Loaded {
    Ok(Model),
    Err(String),
    Panic(String),
}

pub fn load_cfg(bytes: &[u8], opt: bool, infer: &str) -> Loaded {
    let mode = match infer {
        "off" => ShapeInferenceMode::Off,
        "on" => ShapeInferenceMode::On,
        _ => ShapeInferenceMode::Strict,
    };
    let b = bytes.to_vec();
    match guarded(move || {
        let mut o = ModelOptions::with_all_ops();
        o.enable_optimization(opt);
        o.shape_inference(mode);
        o.load(b)
    }) {
        Ok(Ok(m)) => Loaded::Ok(m),
        Ok(Err(e)) => Loaded::Err(e.to_string()),
        Err(msg) => Loaded::Panic(msg),
    }
}

/// Sorted operator names with their input counts in the loaded graph (top level), e.g.
/// "Add:2,MatMul:2" (the input count shows fusions that keep the operator name: Conv + bias,
/// ReduceMean with its axes folded into the operator).
pub fn op_names(m: &Model) -> Vec<String> {
    use rten::verif::Node;
    let mut v: Vec<String> = m
        .verif_graph()
        .iter()
        .filter_map(|(_, n)| match n {
            Node::Operator(op) => Some(format!("{}:{}", op.operator().name(), op.input_ids().len())),
            _ => None,
        })
        .collect();
    v.sort();
    v
}

/// Multiset difference of operator names, as "-Add-Mul+FusedMatMul" ("" if equal).
pub fn delta(base: &[String], other: &[String]) -> String {
    let mut removed = Vec::new();
    let mut added = Vec::new();
    let mut names: Vec<&String> = base.iter().chain(other.iter()).collect();
    names.sort();
    names.dedup();
    for n in names {
        let a = base.iter().filter(|x| *x == n).count();
        let b = other.iter().filter(|x| *x == n).count();
        if a > b {
            removed.push(n.clone());
        } else if b > a {
            added.push(n.clone());
        }
    }
    let mut s = String::new();
    for r in removed {
        s.push('-');
        s.push_str(&r);
    }
    for a in added {
        s.push('+');
        s.push_str(&a);
    }
    s
}

fn out_json(v: &Value) -> J {
    fn ints<I: Iterator<Item = i64>>(shape: &[usize], dt: &str, it: I) -> J {
        json!({"shape": shape, "dtype": dt, "data": it.collect::<Vec<i64>>(), "nonint": 0, "bits": []})
    }
    use rten_tensor::prelude::*;
    match v {
        Value::FloatTensor(t) => {
            let mut nonint = 0;
            let data: Vec<i64> = t
                .iter()
                .map(|x| {
                    let (i, bad) = f_ival(*x);
                    if bad {
                        nonint += 1;
                    }
                    i
                })
                .collect();
            let bits: Vec<i32> = t.iter().map(|x| x.to_bits() as i32).collect();
            json!({"shape": t.shape(), "dtype": "f32", "data": data, "nonint": nonint, "bits": bits})
        }
        Value::Int32Tensor(t) => ints(t.shape(), "i32", t.iter().map(|x| *x as i64)),
        Value::Int8Tensor(t) => ints(t.shape(), "i8", t.iter().map(|x| *x as i64)),
        Value::UInt8Tensor(t) => ints(t.shape(), "u8", t.iter().map(|x| *x as i64)),
        Value::Sequence(s) => json!({"shape": [s.len()], "dtype": "seq", "data": [], "nonint": 0, "bits": []}),
        _ => json!({"shape": [], "dtype": "unknown", "data": [], "nonint": 0, "bits": []}),
    }
}

/// Absolute difference of corresponding f32 elements in units of 1e-9, capped at 2^30 (a harness
/// projection: TLA+ does no float arithmetic; the ULP distance is computed by the spec from `bits`).
/// -1 where either element is NaN / infinite or there is no corresponding element.
fn adq(base: &J, other: &J) -> Vec<i64> {
    let (Some(a), Some(b)) = (base["bits"].as_array(), other["bits"].as_array()) else { return vec![] };
    if a.len() != b.len() {
        return vec![-1; b.len()];
    }
    a.iter()
        .zip(b)
        .map(|(x, y)| {
            let fx = f32::from_bits(x.as_i64().unwrap() as i32 as u32) as f64;
            let fy = f32::from_bits(y.as_i64().unwrap() as i32 as u32) as f64;
            if !fx.is_finite() || !fy.is_finite() {
                return -1;
            }
            let d = ((fx - fy).abs() * 1e9).ceil();
            if d >= (1u64 << 30) as f64 { 1 << 30 } else { d as i64 }
        })
        .collect()
}

pub struct LoadedSet {
    pub models: Vec<Loaded>,
    pub ops: Vec<Vec<String>>,
}

pub fn load_all(c: &CaseD) -> LoadedSet {
    let bytes = c.model.to_bytes();
    let models: Vec<Loaded> = CFGS.iter().map(|(opt, infer)| load_cfg(&bytes, *opt, infer)).collect();
    let ops = models.iter().map(|m| if let Loaded::Ok(m) = m { op_names(m) } else { vec![] }).collect();
    LoadedSet { models, ops }
}

/// Run input set `r` of the case under every configuration; returns the `ret` record (without id).
pub fn run_case(c: &CaseD, ls: &LoadedSet, r: usize) -> J {
    let mut cfgs: Vec<J> = Vec::new();
    let feeds = &c.runs[r];
    for (k, (opt, infer)) in CFGS.iter().enumerate() {
        let base = json!({"opt": *opt, "infer": infer, "nops": ls.ops[k].len(), "ops": ls.ops[k].join(","),
                          "delta": delta(&ls.ops[0], &ls.ops[k])});
        let mk = |outcome: &str, msg: &str, outs: Vec<J>| {
            let mut b = base.clone();
            let m = b.as_object_mut().unwrap();
            m.insert("outcome".into(), json!(outcome));
            m.insert("msg".into(), json!(trunc(msg)));
            m.insert("mclass".into(), json!(msg_class(msg)));
            m.insert("outs".into(), json!(outs));
            b
        };
        let model = match &ls.models[k] {
            Loaded::Ok(m) => m,
            Loaded::Err(e) => {
                let mut b = mk("loaderr", e, vec![]);
                b.as_object_mut().unwrap().insert("byname".into(), json!(""));
                b.as_object_mut().unwrap().insert("bn_outs".into(), json!([]));
                cfgs.push(b);
                continue;
            }
            Loaded::Panic(e) => {
                let mut b = mk("panic_load", e, vec![]);
                b.as_object_mut().unwrap().insert("byname".into(), json!(""));
                b.as_object_mut().unwrap().insert("bn_outs".into(), json!([]));
                cfgs.push(b);
                continue;
            }
        };
        // Outputs are requested by POSITION (Model::output_ids); the same request by NAME
        // (Model::node_id of each declared output) is made as well and only compared (`byname`).
        let mk_inputs = || -> Result<Vec<(rten::NodeId, rten::ValueOrView)>, String> {
            let mut inputs = Vec::new();
            for (t, v) in feeds.iter().zip(&c.model.inputs) {
                let id = model.node_id(&v.name).map_err(|e| e.to_string())?;
                inputs.push((id, t.to_value().into()));
            }
            Ok(inputs)
        };
        let res = guarded(|| -> Result<Vec<Value>, String> {
            let outs = model.output_ids().to_vec();
            if outs.len() != c.model.outputs.len() {
                return Err(format!("model has {} outputs, {} declared", outs.len(), c.model.outputs.len()));
            }
            model.run(mk_inputs()?, &outs, None).map_err(|e| e.to_string())
        });
        let byname = guarded(|| -> Result<Option<Vec<Value>>, String> {
            let mut outs = Vec::new();
            for o in &c.model.outputs {
                outs.push(model.node_id(o).map_err(|e| e.to_string())?);
            }
            if outs == model.output_ids() {
                return Ok(None);
            }
            model.run(mk_inputs()?, &outs, None).map(Some).map_err(|e| e.to_string())
        });
        // by-name outputs are logged (with the same projection against the baseline) and compared by the spec
        let mut bn_outs: Vec<J> = Vec::new();
        let byname = match byname {
            Ok(Ok(None)) => "same_ids".to_string(),
            Ok(Ok(Some(b))) => {
                bn_outs = b.iter().map(out_json).collect();
                for (i, o) in bn_outs.iter_mut().enumerate() {
                    let a = if k == 0 {
                        vec![]
                    } else {
                        match cfgs[0]["outs"].get(i) {
                            Some(b0) if cfgs[0]["outcome"] == "ok" => adq(b0, o),
                            _ => vec![],
                        }
                    };
                    o.as_object_mut().unwrap().insert("adq".into(), json!(a));
                }
                "ran".to_string()
            }
            Ok(Err(e)) => format!("err: {}", trunc(&e)),
            Err(e) => format!("panic: {}", trunc(&e)),
        };
        let mk = |outcome: &str, msg: &str, outs: Vec<J>| {
            let mut b = mk(outcome, msg, outs);
            b.as_object_mut().unwrap().insert("byname".into(), json!(byname));
            b.as_object_mut().unwrap().insert("bn_outs".into(), json!(bn_outs));
            b
        };
        match res {
            Ok(Ok(vals)) => {
                let mut outs: Vec<J> = vals.iter().map(out_json).collect();
                // projection against the baseline (configuration 1) for float outputs
                for (i, o) in outs.iter_mut().enumerate() {
                    let a = if k == 0 {
                        vec![]
                    } else {
                        match cfgs[0]["outs"].get(i) {
                            Some(b) if cfgs[0]["outcome"] == "ok" => adq(b, o),
                            _ => vec![],
                        }
                    };
                    o.as_object_mut().unwrap().insert("adq".into(), json!(a));
                }
                cfgs.push(mk("ok", "", outs));
            }
            Ok(Err(e)) => cfgs.push(mk("runerr", &e, vec![])),
            Err(e) => cfgs.push(mk("panic_run", &e, vec![])),
        }
    }
    let changed = (1..6).any(|k| matches!(ls.models[k], Loaded::Ok(_)) && matches!(ls.models[0], Loaded::Ok(_)) && ls.ops[k] != ls.ops[0]);
    json!({"ev": "ret", "aborted": false, "changed": changed, "cfgs": cfgs})
}
