//! Modules of the `vh-opt` binary (C01: graph optimisation preserves model semantics).
pub mod build;
pub mod gen_dag;
pub mod gen_fusions;
pub mod model;
pub mod near_miss;
pub mod run;
