//! Near-miss neighbourhood of a generated program: every graph that differs from it in exactly ONE
//! respect, derived mechanically from the model description (no knowledge of the fusion aimed at):
//!
//!   nm_swap            operands of a node with >= 2 inputs exchanged (x/c -> c/x, MatMul(a,b) -> MatMul(b,a),
//!                      Where branches, Concat order, Gather data/indices, ...)
//!   nm_op              a binary operator replaced by its sibling (Add<->Sub, Mul<->Div, Greater<->Less,
//!                      Min<->Max, Equal->Greater)
//!   nm_dup_output      an intermediate value additionally requested as a graph output
//!   nm_dup_consumer    an intermediate value consumed a second time (Identity -> extra graph output)
//!   nm_attr_<name>     one attribute off its value (ints +-1 / toggled, perm rotated, axes changed, Cast
//!                      target changed, floats changed, an optional attribute removed)
//!   nm_const_rank      a one-element constant given another rank ([] <-> [1] <-> [1,1])
//!   nm_const_vec       a one-element constant turned into a 2-element vector
//!   nm_const_value     a one-element constant given another value (float 2v+1, int v+1)
//!   nm_identity_between an Identity inserted on one edge
//!
//! Most near misses must NOT be rewritten by the optimizer (or must be rewritten differently); all of
//! them are run through the same six-configuration differential as every other program, so a fusion
//! that fires on a graph it was not meant for shows as a changed result. A near miss the unoptimised
//! model cannot run (shapes no longer fit) constrains nothing.

use vcommon::onnx::{FLOAT, INT32, INT64};

use super::model::{AV, CaseD, Data, GT, NodeD};

fn sibling(op: &str) -> Option<&'static str> {
    Some(match op {
        "Add" => "Sub",
        "Sub" => "Add",
        "Mul" => "Div",
        "Div" => "Mul",
        "Greater" => "Less",
        "Less" => "Greater",
        "Min" => "Max",
        "Max" => "Min",
        "Equal" => "Greater",
        _ => return None,
    })
}

fn derive(base: &CaseD, kind: &str, f: impl FnOnce(&mut CaseD)) -> CaseD {
    let mut c = base.clone();
    c.pat = if base.pat.is_empty() { base.variant.clone() } else { format!("{}.{}", base.pat, base.variant) };
    c.variant = kind.to_string();
    c.runs.truncate(1); // one input set per near miss
    f(&mut c);
    c
}

/// All single-edit near misses of `base`, grouped by kind (in a fixed order).
pub fn near_misses(base: &CaseD) -> Vec<CaseD> {
    let m = &base.model;
    let mut out = Vec::new();
    let produced: Vec<String> = m.nodes.iter().flat_map(|n| n.outs.clone()).collect();
    let consumed = |v: &String| m.nodes.iter().any(|n| n.ins.contains(v));

    // nm_swap
    for (i, n) in m.nodes.iter().enumerate() {
        let present: Vec<usize> = (0..n.ins.len()).filter(|k| !n.ins[*k].is_empty()).collect();
        for w in present.windows(2) {
            let (a, b) = (w[0], w[1]);
            // (the condition of Where is a bool tensor: exchanging it with a branch is not a well-typed graph)
            if n.op == "Where" && a == 0 {
                continue;
            }
            if n.ins[a] != n.ins[b] {
                out.push(derive(base, "nm_swap", |c| c.model.nodes[i].ins.swap(a, b)));
            }
        }
    }
    // nm_op
    for (i, n) in m.nodes.iter().enumerate() {
        if let Some(s) = sibling(&n.op) {
            out.push(derive(base, "nm_op", |c| c.model.nodes[i].op = s.to_string()));
        }
    }
    // nm_dup_output / nm_dup_consumer
    for v in &produced {
        if m.outputs.contains(v) || !consumed(v) {
            continue;
        }
        out.push(derive(base, "nm_dup_output", |c| c.model.outputs.push(v.clone())));
        out.push(derive(base, "nm_dup_consumer", |c| {
            let o = format!("nm_{v}");
            c.model.nodes.push(NodeD { op: "Identity".into(), ins: vec![v.clone()], outs: vec![o.clone()], attrs: vec![] });
            c.model.outputs.push(o);
        }));
    }
    // nm_attr
    for (i, n) in m.nodes.iter().enumerate() {
        for (j, (name, v)) in n.attrs.iter().enumerate() {
            let mut alts: Vec<Option<AV>> = Vec::new();
            match v {
                AV::Int(x) if name == "to" => {
                    for t in [FLOAT as i64, INT32 as i64, INT64 as i64] {
                        if t != *x {
                            alts.push(Some(AV::Int(t)));
                            break;
                        }
                    }
                }
                AV::Int(x) => {
                    alts.push(Some(AV::Int(if *x == 0 { 1 } else if *x == 1 { 0 } else { x + 1 })));
                    alts.push(Some(AV::Int(x - 1)));
                    alts.push(None);
                }
                AV::Ints(l) if !l.is_empty() => {
                    let mut sorted = l.clone();
                    sorted.sort();
                    let is_perm = l.len() >= 2 && sorted.iter().enumerate().all(|(k, x)| *x == k as i64);
                    if is_perm {
                        let mut rot = l.clone();
                        rot.rotate_left(1);
                        alts.push(Some(AV::Ints(rot)));
                        let mut sw = l.clone();
                        let last = sw.len() - 1;
                        sw.swap(0, last);
                        alts.push(Some(AV::Ints(sw)));
                    } else {
                        let mut a = l.clone();
                        a[0] = if a[0] < 0 { 0 } else { a[0] + 1 };
                        alts.push(Some(AV::Ints(a)));
                        let mut b2 = l.clone();
                        b2[0] = if b2[0] == -1 { -2 } else { -1 };
                        alts.push(Some(AV::Ints(b2)));
                    }
                }
                AV::Flt(x) => alts.push(Some(AV::Flt(x * 2.0 + 1.0))),
                _ => {}
            }
            for a in alts {
                out.push(derive(base, &format!("nm_attr_{name}"), |c| match a {
                    Some(a) => c.model.nodes[i].attrs[j].1 = a,
                    None => {
                        c.model.nodes[i].attrs.remove(j);
                    }
                }));
            }
        }
    }
    // constants
    for (i, (_, t)) in m.inits.iter().enumerate() {
        let n: usize = t.shape.iter().product();
        if n != 1 {
            continue;
        }
        match &t.data {
            Data::F(v) => {
                let val = v[0];
                for sh in [vec![], vec![1usize], vec![1, 1]] {
                    if sh != t.shape {
                        out.push(derive(base, "nm_const_rank", |c| c.model.inits[i].1 = GT::f(&sh, vec![val])));
                    }
                }
                out.push(derive(base, "nm_const_vec", |c| c.model.inits[i].1 = GT::f(&[2], vec![val, val])));
                out.push(derive(base, "nm_const_value", |c| c.model.inits[i].1 = GT::f(&t.shape, vec![val * 2.0 + 1.0])));
            }
            Data::I(v) => {
                let (val, ot, sh) = (v[0], t.ot, t.shape.clone());
                // (trace integers must stay below 2^31: an "open end" i32::MAX is decremented instead)
                let nv = if val >= i32::MAX as i64 { val - 1 } else { val + 1 };
                out.push(derive(base, "nm_const_value", |c| c.model.inits[i].1 = GT::i(&sh, ot, vec![nv])));
            }
        }
    }
    // nm_identity_between
    for (i, n) in m.nodes.iter().enumerate() {
        for (k, v) in n.ins.iter().enumerate() {
            if v.is_empty() || m.inits.iter().any(|(name, _)| name == v) {
                continue;
            }
            out.push(derive(base, "nm_identity_between", |c| {
                let o = format!("nm_{i}_{k}");
                c.model.nodes[i].ins[k] = o.clone();
                c.model.nodes.insert(i, NodeD { op: "Identity".into(), ins: vec![v.clone()], outs: vec![o], attrs: vec![] });
            }));
        }
    }
    out
}

/// The near misses to run: all of them, or (sampled) every operand swap and operator substitution
/// plus one of each other kind, rotating with `k`.
pub fn select(all: Vec<CaseD>, sample: bool, k: usize) -> Vec<CaseD> {
    if !sample {
        return all;
    }
    let mut out = Vec::new();
    let mut kinds: Vec<String> = Vec::new();
    for c in &all {
        if !kinds.contains(&c.variant) {
            kinds.push(c.variant.clone());
        }
    }
    for kind in kinds {
        let group: Vec<&CaseD> = all.iter().filter(|c| c.variant == kind).collect();
        if kind == "nm_swap" || kind == "nm_op" {
            out.extend(group.into_iter().cloned());
        } else {
            out.push(group[k % group.len()].clone());
        }
    }
    out
}
