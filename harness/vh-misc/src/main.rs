fn main() {
    eprintln!("usage: vh-misc <subcommand> [options]");
    std::process::exit(2);
}
