mod child;
mod ctc;
mod geometry;
mod raster;
mod serialize;

fn main() {
    let cmd = std::env::args().nth(1).unwrap_or_default();
    match cmd.as_str() {
        "raster-contours" => raster::main_contours(),
        "raster-draw" => raster::main_draw(),
        "geometry" => geometry::main_geometry(),
        "ctc" => ctc::main_ctc(),
        "serialize" => serialize::main_serialize(),
        "serialize-hdr" => serialize::main_serialize_hdr(),
        _ => {
            eprintln!("usage: vh-misc <raster-contours|raster-draw|geometry|ctc|serialize> [options]");
            std::process::exit(2);
        }
    }
}
