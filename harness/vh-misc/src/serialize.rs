//! C34 engine: write tensors with the real rten-serialize writers (.npy, .npz,
//! .safetensors), read them back, corrupt the bytes and read again.  Each
//! case runs in a watched worker process (`child.rs`), so a hang or an abort
//! of a reader becomes an outcome record.  `Trace_Serialize.tla` follows the
//! store state machine and judges every read.

use std::collections::HashMap;
use std::io::Cursor;

use rten_serialize::{DataType, Value, View, npy, npz, safetensors};
use rten_tensor::prelude::*;
use rten_tensor::Tensor;
use vcommon::{Rng, Trace, Value as J, arg, arg_usize, guarded, json, limbs, quiet_panics, seed_from_env};

const DTYPES: [&str; 11] = ["bool", "i8", "i16", "i32", "i64", "u8", "u16", "u32", "u64", "f32", "f64"];
const FORMATS: [&str; 3] = ["npy", "npz", "safetensors"];

/// A tensor in harness form: dtype, logical shape, element bit patterns.
#[derive(Clone)]
struct T {
    dtype: &'static str,
    shape: Vec<usize>,
    bits: Vec<u64>,
    layout: &'static str,
}

fn tensor_json(dtype: &str, shape: &[usize], bits: &[u64]) -> J {
    json!({"dtype": dtype, "shape": shape, "elems": bits.iter().map(|&b| limbs(b)).collect::<Vec<_>>()})
}

fn name_json(name: &str) -> J {
    J::Array(name.chars().map(|c| json!(c as u32)).collect())
}

trait Elem: Copy + Default + 'static {
    fn from_bits64(b: u64) -> Self;
    fn bits64(self) -> u64;
}
macro_rules! impl_elem_int {
    ($($t:ty => $u:ty),*) => {$(
        impl Elem for $t {
            fn from_bits64(b: u64) -> Self { (b as $u) as $t }
            fn bits64(self) -> u64 { (self as $u) as u64 }
        }
    )*};
}
impl_elem_int!(i8 => u8, i16 => u16, i32 => u32, i64 => u64, u8 => u8, u16 => u16, u32 => u32, u64 => u64);
impl Elem for bool {
    fn from_bits64(b: u64) -> Self { b & 1 == 1 }
    fn bits64(self) -> u64 { self as u64 }
}
impl Elem for f32 {
    fn from_bits64(b: u64) -> Self { f32::from_bits(b as u32) }
    fn bits64(self) -> u64 { self.to_bits() as u64 }
}
impl Elem for f64 {
    fn from_bits64(b: u64) -> Self { f64::from_bits(b) }
    fn bits64(self) -> u64 { self.to_bits() }
}

macro_rules! with_dtype {
    ($name:expr, $T:ident => $body:expr) => {
        match $name {
            "bool" => { type $T = bool; $body }
            "i8" => { type $T = i8; $body }
            "i16" => { type $T = i16; $body }
            "i32" => { type $T = i32; $body }
            "i64" => { type $T = i64; $body }
            "u8" => { type $T = u8; $body }
            "u16" => { type $T = u16; $body }
            "u32" => { type $T = u32; $body }
            "u64" => { type $T = u64; $body }
            "f32" => { type $T = f32; $body }
            "f64" => { type $T = f64; $body }
            other => panic!("dtype {other}"),
        }
    };
}

fn width_mask(dtype: &str) -> u64 {
    match dtype {
        "bool" => 1,
        "i8" | "u8" => 0xff,
        "i16" | "u16" => 0xffff,
        "i32" | "u32" | "f32" => 0xffff_ffff,
        _ => u64::MAX,
    }
}

fn random_bits(rng: &mut Rng, dtype: &str) -> u64 {
    let m = width_mask(dtype);
    let special: &[u64] = match dtype {
        "f32" => &[0, 0x8000_0000, 0x7f80_0000, 0xff80_0000, 0x7fc0_0001, 0xffff_ffff, 1, 0x3f80_0000],
        "f64" => &[0, 1 << 63, 0x7ff0 << 48, 0xfff0 << 48, (0x7ff8 << 48) | 5, u64::MAX, 1, 0x3ff0 << 48],
        _ => &[0, 1, u64::MAX, 1 << 63, 1 << 31, 1 << 15, 1 << 7, 0x7fff_ffff_ffff_ffff],
    };
    (if rng.chance(1, 2) { *rng.pick(special) } else { rng.next_u64() }) & m
}

fn value_json(v: &Value) -> J {
    macro_rules! conv {
        ($name:expr, $ty:ty) => {{
            let t = v.as_type::<$ty>().unwrap();
            let bits: Vec<u64> = t.iter().map(|x| (*x).bits64()).collect();
            tensor_json($name, t.shape(), &bits)
        }};
    }
    match v.view().dtype() {
        DataType::Bool => conv!("bool", bool),
        DataType::Int8 => conv!("i8", i8),
        DataType::Int16 => conv!("i16", i16),
        DataType::Int32 => conv!("i32", i32),
        DataType::Int64 => conv!("i64", i64),
        DataType::UInt8 => conv!("u8", u8),
        DataType::UInt16 => conv!("u16", u16),
        DataType::UInt32 => conv!("u32", u32),
        DataType::UInt64 => conv!("u64", u64),
        DataType::Float32 => conv!("f32", f32),
        DataType::Float64 => conv!("f64", f64),
        _ => json!({"dtype": "other", "shape": [], "elems": []}),
    }
}

/// Name of the cargo profile this binary was built with (stamped into case records):
/// "checked" when debug assertions (and, in that profile, overflow checks) are compiled in, else "release".
fn profile_name() -> &'static str {
    if cfg!(debug_assertions) { "checked" } else { "release" }
}

fn emit(trace: &mut Trace, ev: J) {
    trace.emit(ev);
    trace.flush();
}

fn short(msg: &str) -> String {
    msg.chars().take(100).collect()
}

/// Write the entries with the real writer; returns the bytes.
fn do_write(fmt: &str, entries: &[(String, T)], via_file: bool, path: &str) -> Result<Result<Vec<u8>, String>, String> {
    guarded(|| -> Result<Vec<u8>, String> {
        // Owners are leaked for the duration of the case (small tensors, child process).
        let mut views: Vec<(String, View<'static>)> = Vec::new();
        for (name, t) in entries {
            let t: &'static T = Box::leak(Box::new(t.clone()));
            let v = leak_view(t);
            views.push((name.clone(), v));
        }
        let io = |e: std::io::Error| format!("{e}");
        match fmt {
            "npy" => {
                let (_, v) = views.pop().unwrap();
                if via_file {
                    npy::write_to_file(path, v).map_err(io)?;
                    std::fs::read(path).map_err(io)
                } else {
                    let mut buf = Vec::new();
                    npy::write(&mut buf, v).map_err(io)?;
                    Ok(buf)
                }
            }
            "npz" => {
                if via_file {
                    npz::write_to_file(path, views).map_err(io)?;
                    std::fs::read(path).map_err(io)
                } else {
                    let mut cur = Cursor::new(Vec::new());
                    npz::write(&mut cur, views).map_err(io)?;
                    Ok(cur.into_inner())
                }
            }
            _ => {
                if via_file {
                    safetensors::write_to_file(path, views).map_err(io)?;
                    std::fs::read(path).map_err(io)
                } else {
                    let mut buf = Vec::new();
                    safetensors::write(&mut buf, views).map_err(io)?;
                    Ok(buf)
                }
            }
        }
    })
}

/// A `View<'static>` over leaked storage laid out as `t.layout` asks.
fn leak_view(t: &'static T) -> View<'static> {
    with_dtype!(t.dtype, E => {
        let n: usize = t.shape.iter().product();
        let rank = t.shape.len();
        let elems: Vec<E> = t.bits.iter().map(|&b| E::from_bits64(b)).collect();
        assert_eq!(elems.len(), n);
        match t.layout {
            "contiguous" => {
                let x: &'static Tensor<E> = Box::leak(Box::new(Tensor::<E>::from_data(&t.shape[..], elems)));
                x.view().into()
            }
            "broadcast" => {
                let x: &'static Tensor<E> = Box::leak(Box::new(Tensor::<E>::from_data(
                    &vec![1usize; rank][..], vec![elems.first().copied().unwrap_or_default()])));
                x.broadcast(&t.shape[..]).into()
            }
            _ => {
                let gap = if t.layout == "strided" { 2 } else { 1 };
                let order: Vec<usize> = if t.layout == "strided" { (0..rank).rev().collect() } else { (0..rank).collect() };
                let mut strides = vec![0usize; rank];
                let mut span = 1usize;
                for &d in &order {
                    strides[d] = span * gap;
                    span = strides[d] * t.shape[d].max(1);
                }
                let len = if n == 0 { 0 } else { t.shape.iter().zip(&strides).map(|(s, st)| (s - 1) * st).sum::<usize>() + 1 };
                let mut data = vec![E::from_bits64(0x5a5a_5a5a_5a5a_5a5a); len];
                for (i, e) in elems.iter().enumerate() {
                    let mut rem = i;
                    let mut off = 0;
                    for d in (0..rank).rev() {
                        off += (rem % t.shape[d]) * strides[d];
                        rem /= t.shape[d];
                    }
                    data[off] = *e;
                }
                let x: &'static Tensor<E> = Box::leak(Box::new(
                    Tensor::<E>::from_data_with_strides(&t.shape[..], data, &strides[..]).expect("strided tensor")));
                x.view().into()
            }
        }
    })
}

enum ReadOut {
    Map(HashMap<String, Value>),
    One(Value),
}

fn do_read(fmt: &str, bytes: &[u8], one: Option<&str>, via_file: bool, path: &str) -> Result<Result<ReadOut, String>, String> {
    guarded(|| -> Result<ReadOut, String> {
        let io = |e: std::io::Error| format!("{e}");
        if via_file {
            std::fs::write(path, bytes).map_err(io)?;
        }
        match (fmt, one) {
            ("npy", _) => {
                let v = if via_file { npy::read_from_file(path) } else { npy::read(bytes) };
                v.map(ReadOut::One).map_err(io)
            }
            ("npz", None) => {
                let m = if via_file { npz::read_from_file(path) } else { npz::read(Cursor::new(bytes)) };
                m.map(ReadOut::Map).map_err(io)
            }
            ("npz", Some(n)) => {
                let v = if via_file { npz::read_array_from_file(path, n) } else { npz::read_array(Cursor::new(bytes), n) };
                v.map(ReadOut::One).map_err(io)
            }
            (_, None) => {
                let m = if via_file { safetensors::read_from_file(path) } else { safetensors::read(bytes) };
                m.map(ReadOut::Map).map_err(io)
            }
            (_, Some(n)) => {
                let v = if via_file { safetensors::read_array_from_file(path, n) } else { safetensors::read_array(bytes, n) };
                v.map(ReadOut::One).map_err(io)
            }
        }
    })
}

fn emit_read(trace: &mut Trace, how: &str, name: &str, r: Result<Result<ReadOut, String>, String>) {
    let (outcome, msg, entries) = match r {
        Err(p) => ("panic", short(&p), vec![]),
        Ok(Err(e)) => ("error", short(&e), vec![]),
        Ok(Ok(ReadOut::One(v))) => ("value", String::new(), vec![json!({"name": name_json(name), "tensor": value_json(&v)})]),
        Ok(Ok(ReadOut::Map(m))) => {
            let mut keys: Vec<&String> = m.keys().collect();
            keys.sort();
            let es = keys.iter().map(|k| json!({"name": name_json(k), "tensor": value_json(&m[*k])})).collect();
            ("value", String::new(), es)
        }
    };
    emit(trace, json!({"ev": "sread", "how": how, "name": name_json(name), "outcome": outcome, "msg": msg, "entries": entries}));
}

const SHAPES: &[&[usize]] = &[&[], &[0], &[1], &[3], &[2, 3], &[0, 3], &[3, 0], &[2, 0, 2], &[1, 1, 1, 1], &[2, 3, 2], &[4], &[1, 5], &[2, 2, 2, 2]];
const NAMES: &[&str] = &["a", "weight.0", "x.npy", "y.npy.npy", "dir/sub/t", "with space", "\u{e9}\u{4e2d}\u{1f600}", "UPPER", "a\\b",
                         "__metadata__", ".", "..", "trailing/", "-", "0", "a:b*c?", "very_long_name_very_long_name_very_long_name_very_long_name_very_long_name"];

fn random_tensor(rng: &mut Rng, dtype_idx: usize, shape_idx: usize) -> T {
    let dtype = DTYPES[dtype_idx % DTYPES.len()];
    let shape = SHAPES[shape_idx % SHAPES.len()].to_vec();
    let n: usize = shape.iter().product();
    let layout = *rng.pick(&["contiguous", "contiguous", "permuted", "strided", "broadcast"]);
    let bits: Vec<u64> = if layout == "broadcast" {
        let b = random_bits(rng, dtype);
        vec![b; n]
    } else {
        (0..n).map(|_| random_bits(rng, dtype)).collect()
    };
    T { dtype, shape, bits, layout }
}

fn find(hay: &[u8], needle: &[u8]) -> Option<usize> {
    hay.windows(needle.len()).position(|w| w == needle)
}

/// Mutate the file bytes; returns a description.
fn corrupt(rng: &mut Rng, fmt: &str, b: &mut Vec<u8>, allow_structured: bool) -> String {
    // At most one structured (header-number / length-field) edit is applied per pristine copy, so that the
    // class logged with it describes the file; further edits on that copy are byte-level.
    let kind = {
        let k = rng.below(10);
        if !allow_structured && (5..=7).contains(&k) { k % 5 } else { k }
    };
    let n = b.len();
    match kind {
        0 if n > 0 => {
            let i = rng.below(n);
            b[i] ^= 1 << rng.below(8);
            format!("bitflip@{i}")
        }
        1 if n > 0 => {
            // header-biased byte overwrite
            let i = rng.below(n.min(160));
            b[i] = rng.next_u64() as u8;
            format!("byte@{i}")
        }
        2 => {
            let k = rng.below(n + 1);
            b.truncate(k);
            format!("truncate@{k}")
        }
        3 => {
            let k = 1 + rng.below(40);
            for _ in 0..k {
                b.push(rng.next_u64() as u8);
            }
            format!("append{k}")
        }
        4 if n > 0 => {
            let i = rng.below(n);
            let k = (1 + rng.below(16)).min(n - i);
            let v = *rng.pick(&[0u8, 0xff, b'9', b'\'', b'(', b'{', b'"']);
            for x in &mut b[i..i + k] {
                *x = v;
            }
            format!("fill@{i}+{k}")
        }
        5 => {
            // length fields: npy header length (offset 8), safetensors header length (offset 0), zip tail
            let (off, len) = match fmt {
                "npy" => (8usize, 2usize),
                "safetensors" => (0, 8),
                _ => (n.saturating_sub(22 - 10), 8),
            };
            for i in off..(off + len).min(b.len()) {
                b[i] = *rng.pick(&[0u8, 0xff, 0x7f, 0x80, 1]);
            }
            format!("lenfield@{off}")
        }
        6 => {
            // textual edits of header fields (same length or not)
            let subs: &[(&[u8], &[u8])] = &[
                (b"'shape': (", b"'shape': (18446744073709551615, "),
                (b"'shape': (", b"'shape': (4294967296, 4294967296, "),
                (b"'shape': (", b"'shape': (0, 9223372036854775808, "),
                (b"False", b"True "),
                (b"'descr': '<", b"'descr': '>"),
                (b"'descr': '|", b"'descr': '>"),
                (b"<f4", b"<f9"), (b"<i8", b"<i0"), (b"|b1", b"|b9"), (b"<u2", b"<c8"),
                (b"\"shape\":[", b"\"shape\":[18446744073709551615,"),
                (b"\"shape\":[", b"\"shape\":[-1,"),
                (b"\"data_offsets\":[", b"\"data_offsets\":[18446744073709551615,"),
                (b"\"data_offsets\":[0,", b"\"data_offsets\":[9,"),
                (b"\"dtype\":\"", b"\"dtype\":\"X"),
                (b"F32", b"F64"), (b"I8", b"U64"), (b"BOOL", b"F16 "),
                (b".npy", b".npz"), (b"PK\x01\x02", b"PK\x03\x04"), (b"PK\x05\x06", b"PK\x06\x06"),
            ];
            let start = rng.below(subs.len());
            for j in 0..subs.len() {
                let (from, to) = subs[(start + j) % subs.len()];
                if let Some(p) = find(b, from) {
                    let keep_len = rng.chance(1, 2) && to.len() >= from.len();
                    let tail: Vec<u8> = b[p + from.len()..].to_vec();
                    b.truncate(p);
                    b.extend_from_slice(to);
                    if keep_len {
                        // drop as many following bytes as were added (keeps length fields consistent)
                        let extra = to.len() - from.len();
                        b.extend_from_slice(&tail[extra.min(tail.len())..]);
                    } else {
                        b.extend_from_slice(&tail);
                    }
                    return format!("subst{}", (start + j) % subs.len());
                }
            }
            "subst-none".to_string()
        }
        7 if fmt == "npy" && n > 12 && rng.chance(1, 2) => {
            // switch to format version 2/3 (4-byte header length), with a plausible or a wild length
            let v = *rng.pick(&[2u8, 3]);
            b[6] = v;
            let hl = u16::from_le_bytes([b[8], b[9]]) as u32;
            let new_len: u32 = *rng.pick(&[hl, hl.saturating_sub(2), 0, 0xffff_ffff, 0x7fff_ffff, hl + 1_000_000]);
            let rest: Vec<u8> = b[10..].to_vec();
            b.truncate(8);
            b.extend_from_slice(&new_len.to_le_bytes());
            b.extend_from_slice(&rest);
            format!("npy-v{v}-len{new_len}")
        }
        7 => {
            // arbitrary bytes
            let k = rng.below(200);
            *b = (0..k).map(|_| rng.next_u64() as u8).collect();
            format!("random{k}")
        }
        8 if n > 4 => {
            // arbitrary bytes after a valid prefix
            let keep = rng.below(n.min(64));
            let k = rng.below(100);
            b.truncate(keep);
            for _ in 0..k {
                b.push(rng.next_u64() as u8);
            }
            format!("prefix{keep}+{k}")
        }
        _ => {
            // duplicate a chunk / swap two chunks
            if n > 8 {
                let i = rng.below(n - 4);
                let k = 1 + rng.below((n - i).min(32));
                let chunk: Vec<u8> = b[i..i + k].to_vec();
                let at = rng.below(n);
                for (o, c) in chunk.iter().enumerate() {
                    if at + o < b.len() {
                        b[at + o] = *c;
                    }
                }
                format!("copy{i}+{k}->{at}")
            } else {
                b.clear();
                "empty".to_string()
            }
        }
    }
}

/// One self-contained case: write, read back (all + each entry), corrupt several times and read.
fn run_case(trace: &mut Trace, idx: usize, ncorrupt: usize) {
    let mut rng = Rng::new(seed_from_env() ^ (idx as u64).wrapping_mul(0x9E37_79B9_7F4A_7C15) ^ 0xC34);
    let fmt = FORMATS[idx % 3];
    let via_file = (idx / 3) % 5 == 4;
    let path = format!("c34-{}.{}", std::process::id(), fmt);
    emit(trace, json!({"ev": "scase", "idx": idx, "fmt": fmt, "via_file": via_file, "profile": profile_name()}));
    // entries: dtype and shape sweep systematically with idx, the rest is seeded
    let nent = if fmt == "npy" { 1 } else { 1 + rng.below(3) };
    let mut entries: Vec<(String, T)> = Vec::new();
    for e in 0..nent {
        let jitter = rng.below(2);
        let t = random_tensor(&mut rng, idx / 3 + e * 5, idx / 33 + e * 3 + jitter);
        let mut name = if e == 0 && idx % 2 == 0 { NAMES[(idx / 6) % NAMES.len()].to_string() } else { format!("t{e}") };
        if entries.iter().any(|(n, _)| *n == name) {
            name = format!("{name}_{e}");
        }
        entries.push((name, t));
    }
    let ejson: Vec<J> = entries.iter().map(|(n, t)| json!({"name": name_json(n), "layout": t.layout,
        "tensor": tensor_json(t.dtype, &t.shape, &t.bits)})).collect();
    emit(trace, json!({"ev": "sop", "op": "write"}));
    let w = do_write(fmt, &entries, via_file, &path);
    let (outcome, msg, mut bytes) = match w {
        Err(p) => ("panic", short(&p), vec![]),
        Ok(Err(e)) => ("error", short(&e), vec![]),
        Ok(Ok(b)) => ("ok", String::new(), b),
    };
    emit(trace, json!({"ev": "swrite", "entries": ejson, "outcome": outcome, "msg": msg, "nbytes": bytes.len()}));
    if outcome == "ok" {
        emit(trace, json!({"ev": "sop", "op": "read"}));
        emit_read(trace, "all", "", do_read(fmt, &bytes, None, via_file, &path));
        if fmt != "npy" {
            for (name, _) in &entries {
                emit(trace, json!({"ev": "sop", "op": "read"}));
                emit_read(trace, "one", name, do_read(fmt, &bytes, Some(name), via_file, &path));
            }
        }
        let pristine = bytes.clone();
        let mut structured = false;
        for c in 0..ncorrupt {
            if c % 3 == 0 {
                bytes = pristine.clone(); // otherwise corruptions accumulate
                structured = false;
            }
            let what = corrupt(&mut rng, fmt, &mut bytes, !structured);
            // class of the edit (a description of what the generator did, for signatures): structured
            // header-number edits are named, everything else is "bytes"
            let class = match what.as_str() {
                "subst0" | "subst10" => "huge_dim",
                "subst1" => "huge_dims",
                "subst2" => "zero_dim_times_huge_dims",
                "subst11" => "negative_dim",
                "subst12" | "subst13" => "data_offsets_edit",
                w if w.starts_with("subst") => "header_text_edit",
                w if w.starts_with("lenfield") || w.starts_with("npy-v") => "length_field_edit",
                _ => "bytes",
            };
            structured = structured || class != "bytes";
            emit(trace, json!({"ev": "scorrupt", "what": what, "class": class, "fresh": c % 3 == 0, "nbytes": bytes.len()}));
            emit(trace, json!({"ev": "sop", "op": "read"}));
            emit_read(trace, "all", "", do_read(fmt, &bytes, None, via_file, &path));
            if fmt != "npy" && rng.chance(1, 2) {
                let name = &entries[0].0;
                emit(trace, json!({"ev": "sop", "op": "read"}));
                emit_read(trace, "one", name, do_read(fmt, &bytes, Some(name), via_file, &path));
            }
        }
    }
    if via_file {
        let _ = std::fs::remove_file(&path);
    }
    emit(trace, json!({"ev": "sdone"}));
}

pub fn main_serialize() {
    quiet_panics();
    let cases = arg_usize("--cases", 100);
    let ncorrupt = arg_usize("--corrupt", 6);
    if arg("--worker").is_none() {
        let out = arg("--out").expect("--out");
        let mut trace = Trace::create(&out);
        let mut args: Vec<String> = vec!["serialize".into(), "--cases".into(), cases.to_string(),
                                         "--corrupt".into(), ncorrupt.to_string()];
        if let Some(v) = arg("--first") {
            args.push("--first".into());
            args.push(v);
        }
        let lost = |why: &str| json!({"ev": "slost", "outcome": why});
        let spec = crate::child::WorkerSpec {
            args,
            case_ev: "scase",
            ret_ev: "sdone",
            lost: &lost,
            timeout_ms: arg_usize("--timeout-ms", 5000) as u64,
            retry_timeout_ms: arg_usize("--retry-timeout-ms", 15000) as u64,
        };
        let n = crate::child::run_cases(&spec, &mut trace);
        trace.flush();
        println!("{{\"cases\": {n}}}");
        return;
    }
    let first = arg_usize("--first", 0);
    let skip = arg_usize("--skip", 0);
    let limit = arg_usize("--limit", usize::MAX);
    let mut trace = Trace::create("-");
    for i in 0..cases {
        if i >= skip && i - skip < limit {
            run_case(&mut trace, first + i, ncorrupt);
        }
    }
    trace.flush();
}

// ------------------------------------------------------------------------
// Crafted headers: syntactically valid files whose numbers (shape dims, and
// for safetensors the header length and data offsets) sit at the boundaries of
// the readers' arithmetic.  The descriptors are generated by TLC
// (MC_SerializeHdr.tla); nothing is judged here.

fn word(v: &J) -> u128 {
    v.as_array().unwrap().iter().enumerate().fold(0u128, |acc, (i, l)| acc + ((l.as_u64().unwrap() as u128) << (15 * i)))
}

fn limbs128(mut x: u128) -> J {
    let mut v = Vec::new();
    while x != 0 {
        v.push(json!((x & 0x7fff) as u64));
        x >>= 15;
    }
    J::Array(v)
}

fn crc32(data: &[u8]) -> u32 {
    let mut crc = 0xffff_ffffu32;
    for &b in data {
        crc ^= b as u32;
        for _ in 0..8 {
            crc = if crc & 1 != 0 { (crc >> 1) ^ 0xedb8_8320 } else { crc >> 1 };
        }
    }
    !crc
}

/// A zip archive with one stored (uncompressed) member.
fn zip_stored(name: &str, data: &[u8]) -> Vec<u8> {
    let crc = crc32(data);
    let n = name.as_bytes();
    let mut out = Vec::new();
    let local = |out: &mut Vec<u8>, central: bool, offset: u32| {
        out.extend_from_slice(if central { b"PK\x01\x02" } else { b"PK\x03\x04" });
        if central {
            out.extend_from_slice(&20u16.to_le_bytes()); // version made by
        }
        out.extend_from_slice(&20u16.to_le_bytes()); // version needed
        out.extend_from_slice(&0u16.to_le_bytes()); // flags
        out.extend_from_slice(&0u16.to_le_bytes()); // method: stored
        out.extend_from_slice(&0u16.to_le_bytes()); // time
        out.extend_from_slice(&0x21u16.to_le_bytes()); // date
        out.extend_from_slice(&crc.to_le_bytes());
        out.extend_from_slice(&(data.len() as u32).to_le_bytes());
        out.extend_from_slice(&(data.len() as u32).to_le_bytes());
        out.extend_from_slice(&(n.len() as u16).to_le_bytes());
        out.extend_from_slice(&0u16.to_le_bytes()); // extra len
        if central {
            out.extend_from_slice(&0u16.to_le_bytes()); // comment len
            out.extend_from_slice(&0u16.to_le_bytes()); // disk
            out.extend_from_slice(&0u16.to_le_bytes()); // internal attrs
            out.extend_from_slice(&0u32.to_le_bytes()); // external attrs
            out.extend_from_slice(&offset.to_le_bytes());
        }
        out.extend_from_slice(n);
    };
    local(&mut out, false, 0);
    out.extend_from_slice(data);
    let cd_start = out.len() as u32;
    local(&mut out, true, 0);
    let cd_len = out.len() as u32 - cd_start;
    out.extend_from_slice(b"PK\x05\x06");
    out.extend_from_slice(&[0, 0, 0, 0]);
    out.extend_from_slice(&1u16.to_le_bytes());
    out.extend_from_slice(&1u16.to_le_bytes());
    out.extend_from_slice(&cd_len.to_le_bytes());
    out.extend_from_slice(&cd_start.to_le_bytes());
    out.extend_from_slice(&0u16.to_le_bytes());
    out
}

fn npy_file(descr: &str, dims: &[u128], payload: &[u8]) -> Vec<u8> {
    let mut d = dims.iter().map(|x| x.to_string()).collect::<Vec<_>>().join(", ");
    if dims.len() == 1 {
        d.push(',');
    }
    let mut dict = format!("{{'descr': '{descr}', 'fortran_order': False, 'shape': ({d}), }}");
    let unpadded = 10 + dict.len() + 1;
    let pad = unpadded.next_multiple_of(64) - unpadded;
    dict.extend(std::iter::repeat_n(' ', pad));
    dict.push('\n');
    let mut out = Vec::new();
    out.extend_from_slice(b"\x93NUMPY\x01\x00");
    out.extend_from_slice(&(dict.len() as u16).to_le_bytes());
    out.extend_from_slice(dict.as_bytes());
    out.extend_from_slice(payload);
    out
}

/// (npy descr, safetensors dtype, harness dtype name) for an item size
fn dtype_for(isz: u64, idx: usize) -> (&'static str, &'static str, &'static str) {
    match (isz, idx % 2) {
        (1, 0) => ("|u1", "U8", "u8"),
        (1, _) => ("|i1", "I8", "i8"),
        (2, 0) => ("<i2", "I16", "i16"),
        (2, _) => ("<u2", "U16", "u16"),
        (4, 0) => ("<f4", "F32", "f32"),
        (4, _) => ("<i4", "I32", "i32"),
        (8, 0) => ("<f8", "F64", "f64"),
        _ => ("<u8", "U64", "u64"),
    }
}

fn run_hdr_case(trace: &mut Trace, idx: usize, v: &J) {
    let fmt = v["fmt"].as_str().unwrap();
    let isz = v["isz"].as_u64().unwrap();
    let dims: Vec<u128> = v["dims"].as_array().unwrap().iter().map(word).collect();
    let avail = word(&v["avail"]) as usize;
    let (descr, st_dtype, dtype) = dtype_for(isz, idx / 2);
    let how = if fmt != "npy" && idx % 2 == 1 { "one" } else { "all" };
    let payload: Vec<u8> = (0..avail).map(|i| (i as u8).wrapping_mul(37).wrapping_add(1)).collect();
    let (begin, end) = (word(&v["begin"]), word(&v["end"]));
    let (bytes, hlen, flen): (Vec<u8>, u128, u128) = match fmt {
        "npy" => (npy_file(descr, &dims, &payload), 0, 0),
        "npz" => (zip_stored("t.npy", &npy_file(descr, &dims, &payload)), 0, 0),
        _ => {
            let shape = dims.iter().map(|x| x.to_string()).collect::<Vec<_>>().join(",");
            let js = format!("{{\"t\":{{\"dtype\":\"{st_dtype}\",\"shape\":[{shape}],\"data_offsets\":[{begin},{end}]}}}}");
            let actual = js.len() as u128;
            let hl = match v["hlen"]["kind"].as_str().unwrap() {
                "actual" => actual,
                "actual-1" => actual - 1,
                "actual+1" => actual + 1,
                _ => word(&v["hlen"]["v"]),
            };
            let mut out = Vec::new();
            out.extend_from_slice(&(hl as u64).to_le_bytes());
            out.extend_from_slice(js.as_bytes());
            out.extend_from_slice(&payload);
            let fl = out.len() as u128;
            (out, hl, fl)
        }
    };
    emit(trace, json!({"ev": "hcase", "idx": idx, "profile": profile_name(), "fmt": fmt, "how": how, "dtype": dtype,
                       "isz": isz, "dims": v["dims"], "avail": v["avail"], "hlen": limbs128(hlen), "flen": limbs128(flen),
                       "begin": v["begin"], "end": v["end"], "nbytes": bytes.len()}));
    let r = do_read(fmt, &bytes, if how == "one" { Some("t") } else { None }, false, "");
    let (outcome, msg, val) = match r {
        Err(p) => ("panic", short(&p), None),
        Ok(Err(e)) => ("error", short(&e), None),
        Ok(Ok(ReadOut::One(v))) => ("value", String::new(), Some(v)),
        Ok(Ok(ReadOut::Map(mut m))) => match m.remove("t") {
            Some(v) if m.is_empty() => ("value", String::new(), Some(v)),
            _ => ("value", "unexpected entries".to_string(), None),
        },
    };
    let (rdtype, rshape, rn) = match &val {
        Some(v) => {
            let j = value_json(v);
            let shape: Vec<J> = j["shape"].as_array().unwrap().iter().map(|d| limbs(d.as_u64().unwrap())).collect();
            (j["dtype"].as_str().unwrap().to_string(), shape, j["elems"].as_array().unwrap().len())
        }
        None => (String::new(), vec![], 0),
    };
    emit(trace, json!({"ev": "hret", "outcome": outcome, "msg": msg, "dtype": rdtype, "shape": rshape,
                       "nelem": limbs(rn as u64), "has_value": val.is_some()}));
}

pub fn main_serialize_hdr() {
    quiet_panics();
    let hdrs = arg("--headers").expect("--headers");
    if arg("--worker").is_none() {
        let out = arg("--out").expect("--out");
        let mut trace = Trace::create(&out);
        let args: Vec<String> = vec!["serialize-hdr".into(), "--headers".into(), hdrs];
        let lost = |why: &str| json!({"ev": "hret", "outcome": why, "msg": "", "dtype": "", "shape": [],
                                      "nelem": [], "has_value": false});
        let spec = crate::child::WorkerSpec {
            args,
            case_ev: "hcase",
            ret_ev: "hret",
            lost: &lost,
            timeout_ms: arg_usize("--timeout-ms", 5000) as u64,
            retry_timeout_ms: arg_usize("--retry-timeout-ms", 15000) as u64,
        };
        let n = crate::child::run_cases(&spec, &mut trace);
        trace.flush();
        println!("{{\"cases\": {n}}}");
        return;
    }
    let skip = arg_usize("--skip", 0);
    let limit = arg_usize("--limit", usize::MAX);
    let mut trace = Trace::create("-");
    for (i, v) in vcommon::read_json_lines(&hdrs).iter().enumerate() {
        if i >= skip && i - skip < limit {
            // a replayed descriptor carries the index that selected dtype and read kind
            let idx = v.get("idx").and_then(|x| x.as_u64()).map(|x| x as usize).unwrap_or(i);
            run_hdr_case(&mut trace, idx, v);
        }
    }
    trace.flush();
}
