//! C39 engine: run the real `rten::ctc::CtcDecoder` on matrices of rational
//! probabilities n/D (TLC-generated, plus seeded random ones) and log every
//! hypothesis with its score converted to an integer.  `Trace_Ctc.tla` decides.

use rten::ctc::{CtcDecoder, CtcHypothesis};
use rten_tensor::prelude::*;
use rten_tensor::NdTensor;
use vcommon::{Rng, Trace, Value, arg, arg_usize, guarded, json, quiet_panics, read_json_lines};

struct Mat {
    t: usize,
    c: usize,
    d: u32,
    w: Vec<Vec<u32>>,
    /// beam widths asked for by the generator of the matrix (empty: the harness chooses)
    beams: Vec<u32>,
}

impl Mat {
    fn from_json(v: &Value) -> Mat {
        let w: Vec<Vec<u32>> = v["w"].as_array().unwrap().iter()
            .map(|r| r.as_array().unwrap().iter().map(|x| x.as_u64().unwrap() as u32).collect())
            .collect();
        Mat {
            t: v["T"].as_u64().unwrap() as usize,
            c: v["C"].as_u64().unwrap() as usize,
            d: v["D"].as_u64().unwrap() as u32,
            w,
            beams: v.get("beams").and_then(|b| b.as_array())
                .map(|b| b.iter().map(|x| x.as_u64().unwrap() as u32).collect()).unwrap_or_default(),
        }
    }

    /// Log-probability matrix ln(n/D) as f32, in the given memory layout.
    fn tensor(&self, layout: &str) -> NdTensor<f32, 2> {
        let (t, c) = (self.t, self.c);
        let (st, sc) = if layout == "transposed" { (1, t.max(1)) } else { (c.max(1), 1) };
        let len = if t == 0 || c == 0 { 0 } else { (t - 1) * st + (c - 1) * sc + 1 };
        let mut data = vec![0f32; len];
        for i in 0..t {
            for j in 0..c {
                data[i * st + j * sc] = (self.w[i][j] as f64 / self.d as f64).ln() as f32;
            }
        }
        NdTensor::from_data_with_strides([t, c], data, [st, sc]).expect("matrix layout")
    }
}

fn hyp_json(h: &CtcHypothesis, scale: f64) -> Value {
    let s = h.score();
    let (cls, val) = if s.is_nan() {
        ("nan", 0i64)
    } else if s == f32::NEG_INFINITY {
        ("neginf", 0)
    } else if s == f32::INFINITY {
        ("posinf", 0)
    } else {
        let v = ((s as f64).exp() * scale * 1024.0).round();
        if v >= 2e9 { ("huge", 0) } else { ("fin", v as i64) }
    };
    json!({
        "labels": h.steps().iter().map(|st| st.label).collect::<Vec<_>>(),
        "pos": h.steps().iter().map(|st| st.pos).collect::<Vec<_>>(),
        "cls": cls,
        "score": val,
    })
}

fn run_case(trace: &mut Trace, m: &Mat, api: &str, beam: u32, nbest: u32, layout: &str, src: &str) {
    trace.emit(json!({"ev": "ccase", "api": api, "T": m.t, "C": m.c, "D": m.d, "w": m.w,
                      "beam": beam, "nbest": nbest, "layout": layout, "src": src}));
    let x = m.tensor(layout);
    let scale = (m.d as f64).powi(m.t as i32);
    let dec = CtcDecoder::new();
    let r = guarded(|| match api {
        "greedy" => vec![dec.decode_greedy(x.view())],
        "beam" => vec![dec.decode_beam(x.view(), beam)],
        _ => dec.decode_beam_nbest(x.view(), beam, nbest),
    });
    match r {
        Ok(hs) => {
            let hyps: Vec<Value> = hs.iter().map(|h| hyp_json(h, scale)).collect();
            trace.emit(json!({"ev": "cret", "outcome": "ok", "msg": "", "hyps": hyps}));
        }
        Err(msg) => {
            let msg: String = msg.chars().take(80).collect();
            trace.emit(json!({"ev": "cret", "outcome": "panic", "msg": msg, "hyps": []}));
        }
    }
}

/// number of distinct label sequences of length <= t over c-1 labels (capped)
fn num_label_seqs(t: usize, c: usize) -> u32 {
    let mut total = 0u64;
    let mut p = 1u64;
    for _ in 0..=t {
        total += p;
        p = p.saturating_mul(c as u64 - 1);
        if total > 4096 {
            return 4096;
        }
    }
    total as u32
}

fn cases_for(trace: &mut Trace, m: &Mat, rng: &mut Rng, all_widths: bool, src: &str, n: &mut usize) {
    let layout = if rng.chance(1, 3) { "transposed" } else { "contiguous" };
    run_case(trace, m, "greedy", 0, 0, layout, src);
    *n += 1;
    if !m.beams.is_empty() {
        // a matrix constructed for particular beam widths (TLC's beam-search model): the full n-best
        // list at exactly those widths, through both entry points
        for &bw in &m.beams {
            run_case(trace, m, "beam_nbest", bw, bw, layout, src);
            run_case(trace, m, "beam", bw, 1, layout, src);
            *n += 2;
        }
        return;
    }
    let b = num_label_seqs(m.t, m.c);
    let widths: Vec<u32> = if all_widths {
        (1..=b + 2).collect()
    } else {
        // a narrow, a middle and a wide beam (wide: nothing can be pruned)
        let mut v = vec![1 + rng.below(2) as u32, 1 + rng.below(b as usize + 2) as u32, b + rng.below(3) as u32];
        v.dedup();
        v
    };
    for bw in widths {
        let nbest = match rng.below(3) {
            0 => bw,
            1 => 1 + rng.below(bw as usize) as u32,
            _ => bw + 1,
        };
        run_case(trace, m, "beam_nbest", bw, nbest, layout, src);
        *n += 1;
        if rng.chance(1, 4) {
            run_case(trace, m, "beam", bw, 1, layout, src);
            *n += 1;
        }
    }
}

fn random_mat(rng: &mut Rng) -> Mat {
    // larger than the enumerated ones: T <= 6, C <= 5, D = 8 or 16
    let t = 1 + rng.below(6);
    let c = 2 + rng.below(4);
    // D^T <= 2^20 so that D^T * 2^10 stays a 32-bit integer for TLC
    let d = if t <= 5 { *rng.pick(&[8u32, 16]) } else { 8 };
    let style = rng.below(4);
    let w = (0..t)
        .map(|_| {
            let mut row = vec![0u32; c];
            match style {
                0 => {
                    // flat
                    for k in 0..d as usize {
                        row[k % c] += 1;
                    }
                    rng.shuffle(&mut row);
                }
                1 => {
                    // peaked
                    let p = rng.below(c);
                    row[p] = d - (c as u32 - 1).min(d - 1);
                    let mut rest = d - row[p];
                    let mut j = 0;
                    while rest > 0 {
                        if j != p {
                            row[j] += 1;
                            rest -= 1;
                        }
                        j = (j + 1) % c;
                    }
                }
                _ => {
                    // random composition, zeros likely
                    for _ in 0..d {
                        row[rng.below(c)] += 1;
                    }
                }
            }
            row
        })
        .collect();
    Mat { t, c, d, w, beams: vec![] }
}

pub fn main_ctc() {
    quiet_panics();
    let out = arg("--out").expect("--out");
    let mut trace = Trace::create(&out);
    let mut n = 0usize;
    let mut rng = Rng::from_env();
    if let Some(c) = arg("--only-case") {
        let c: Value = serde_json::from_str(&c).unwrap();
        let m = Mat::from_json(&c);
        run_case(&mut trace, &m, c["api"].as_str().unwrap(), c["beam"].as_u64().unwrap() as u32,
                 c["nbest"].as_u64().unwrap() as u32, c["layout"].as_str().unwrap(), "replay");
        trace.flush();
        println!("{{\"cases\": 1}}");
        return;
    }
    if let Some(f) = arg("--mats") {
        let all_widths_upto = arg_usize("--all-widths", 0);
        for (i, v) in read_json_lines(&f).iter().enumerate() {
            let m = Mat::from_json(v);
            cases_for(&mut trace, &m, &mut rng, i < all_widths_upto, "tlc", &mut n);
        }
    }
    for _ in 0..arg_usize("--random", 0) {
        let m = random_mat(&mut rng);
        cases_for(&mut trace, &m, &mut rng, false, "seeded", &mut n);
    }
    trace.flush();
    println!("{{\"cases\": {n}}}");
}
