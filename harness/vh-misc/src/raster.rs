//! C36 engines.
//!
//! `raster-contours`: run the real `find_contours` (both retrieval modes) on
//! every mask of a TLC-generated file and on seeded random masks, logging the
//! mask and the traced contours.  `raster-draw`: run the real drawing/filling
//! primitives on TLC-generated shapes (coordinates inside and outside the
//! image) and log the set of pixels whose value changed.  Nothing is judged
//! here; `Trace_Raster.tla` evaluates the contract.

use rten_imageproc::{
    Line, Painter, Point, Polygon, Rect, RetrievalMode, draw_line, draw_polygon, fill_rect,
    find_contours, stroke_rect,
};
use rten_tensor::prelude::*;
use rten_tensor::NdTensor;
use vcommon::{Rng, Trace, Value, arg, arg_usize, guarded, json, quiet_panics, read_json_lines};

fn short(msg: &str) -> String {
    msg.chars().take(80).collect()
}

// ---------------------------------------------------------------- contours

struct Mask {
    h: usize,
    w: usize,
    rows: Vec<Vec<u8>>,
}

impl Mask {
    fn from_json(v: &Value) -> Mask {
        let h = v["h"].as_u64().unwrap() as usize;
        let w = v["w"].as_u64().unwrap() as usize;
        let rows: Vec<Vec<u8>> = v["mask"]
            .as_array()
            .unwrap()
            .iter()
            .map(|r| {
                r.as_array()
                    .unwrap()
                    .iter()
                    .map(|x| x.as_u64().unwrap() as u8)
                    .collect()
            })
            .collect();
        assert_eq!(rows.len(), h);
        assert!(rows.iter().all(|r| r.len() == w));
        Mask { h, w, rows }
    }

    fn to_json(&self) -> Value {
        json!(self.rows)
    }

    /// The mask as a tensor with the given memory layout.
    fn tensor(&self, layout: &str) -> NdTensor<bool, 2> {
        let (h, w) = (self.h, self.w);
        let (sy, sx) = match layout {
            "contiguous" => (w.max(1), 1),
            "transposed" => (1, h.max(1)),
            "strided" => (2 * w + 3, 2),
            _ => panic!("layout"),
        };
        let len = if h == 0 || w == 0 {
            0
        } else {
            (h - 1) * sy + (w - 1) * sx + 1
        };
        // Filler elements are foreground, so reading a wrong element shows.
        let mut data = vec![true; len];
        for y in 0..h {
            for x in 0..w {
                data[y * sy + x * sx] = self.rows[y][x] != 0;
            }
        }
        NdTensor::from_data_with_strides([h, w], data, [sy, sx]).expect("mask layout")
    }
}

fn run_contours(trace: &mut Trace, m: &Mask, mode: &str, layout: &str, src: &str) {
    trace.emit(json!({"ev": "cmask", "h": m.h, "w": m.w, "mask": m.to_json(), "mode": mode,
                      "layout": layout, "src": src}));
    let t = m.tensor(layout);
    let r = guarded(|| {
        let rm = if mode == "external" {
            RetrievalMode::External
        } else {
            RetrievalMode::List
        };
        let polys = find_contours(t.view(), rm);
        polys
            .iter()
            .map(|c| c.iter().map(|p| json!([p.y, p.x])).collect::<Vec<_>>())
            .collect::<Vec<_>>()
    });
    match r {
        Ok(cs) => trace.emit(json!({"ev": "cret", "outcome": "ok", "msg": "", "contours": cs})),
        Err(msg) => trace.emit(
            json!({"ev": "cret", "outcome": "panic", "msg": short(&msg), "contours": []}),
        ),
    }
}

/// Seeded masks: random densities, plus structures the tiny exhaustive masks
/// cannot contain (rings with islands inside, nested rings, diagonal chains).
fn random_mask(rng: &mut Rng, max: usize) -> Mask {
    let h = 1 + rng.below(max);
    let w = 1 + rng.below(max);
    let mut rows = vec![vec![0u8; w]; h];
    match rng.below(5) {
        0 | 1 | 2 => {
            let den = *rng.pick(&[1usize, 2, 3, 5, 7, 8]);
            for r in rows.iter_mut() {
                for v in r.iter_mut() {
                    *v = rng.chance(den, 9) as u8;
                }
            }
        }
        3 => {
            // nested rectangles outlines (rings), thickness 1, random gap, with random dots
            let mut t = 0usize;
            let (mut b, mut l, mut r) = (h, 0usize, w);
            let mut on = rng.chance(1, 2);
            while t < b && l < r {
                if on {
                    for y in t..b {
                        for x in l..r {
                            if y == t || y + 1 == b || x == l || x + 1 == r {
                                rows[y][x] = 1;
                            }
                        }
                    }
                }
                on = !on || rng.chance(1, 4);
                t += 1;
                l += 1;
                if b == 0 || r == 0 {
                    break;
                }
                b -= 1;
                r -= 1;
            }
            for _ in 0..rng.below(4) {
                let (y, x) = (rng.below(h), rng.below(w));
                rows[y][x] ^= 1;
            }
        }
        _ => {
            // diagonal chains and checkerboards
            let k = 2 + rng.below(2);
            let off = rng.below(k);
            for y in 0..h {
                for x in 0..w {
                    if (x + y + off) % k == 0 || ((x + k * y) % (k + 1) == 0 && rng.chance(1, 3)) {
                        rows[y][x] = 1;
                    }
                }
            }
        }
    }
    Mask { h, w, rows }
}

pub fn main_contours() {
    quiet_panics();
    let out = arg("--out").expect("--out");
    let mut trace = Trace::create(&out);
    let mut n = 0usize;
    if let Some(f) = arg("--masks") {
        let all_layouts = arg("--all-layouts").is_some();
        for v in read_json_lines(&f) {
            let m = Mask::from_json(&v);
            let layouts: &[&str] = if all_layouts {
                &["contiguous", "transposed", "strided"]
            } else {
                &["contiguous"]
            };
            for layout in layouts {
                for mode in ["list", "external"] {
                    run_contours(&mut trace, &m, mode, layout, "tlc");
                    n += 1;
                }
            }
            if n % 4096 == 0 {
                trace.flush();
            }
        }
    }
    let nrand = arg_usize("--random", 0);
    let max = arg_usize("--max-size", 8);
    let mut rng = Rng::from_env();
    for _ in 0..nrand {
        let m = random_mask(&mut rng, max);
        let layout = *rng.pick(&["contiguous", "transposed", "strided"]);
        for mode in ["list", "external"] {
            run_contours(&mut trace, &m, mode, layout, "seeded");
            n += 1;
        }
    }
    trace.flush();
    println!("{{\"cases\": {n}}}");
}

// ----------------------------------------------------------------- drawing

const GUARD: usize = 3;

fn pts_of(v: &Value) -> Vec<Point> {
    v.as_array()
        .unwrap()
        .iter()
        .map(|p| Point::from_yx(p[0].as_i64().unwrap() as i32, p[1].as_i64().unwrap() as i32))
        .collect()
}

/// Draw into an `h` x `w` view placed in the middle of a larger zeroed buffer
/// and return the coordinates (relative to the view) of every element of the
/// whole buffer that changed, so a write outside the view would be seen too.
fn run_draw(trace: &mut Trace, op: &str, h: usize, w: usize, pts_json: &Value, sw: u32) {
    trace.emit(json!({"ev": "dcase", "op": op, "h": h, "w": w, "pts": pts_json, "sw": sw}));
    trace.flush(); // the parent's watchdog must see the case before it runs
    let pts = pts_of(pts_json);
    let (bh, bw) = (h + 2 * GUARD, w + 2 * GUARD);
    let chans = if op == "painter_polygon" { 3 } else { 1 };
    let mut buf = NdTensor::<i32, 3>::zeros([chans, bh, bw]);
    let mut yielded: Vec<Value> = Vec::new();
    let mut truncated = false;
    let r = guarded(|| {
        let mut img3 = buf.slice_mut((.., GUARD..GUARD + h, GUARD..GUARD + w));
        match op {
            "fill_rect" => fill_rect(
                img3.slice_mut(0),
                Rect::from_tlbr(pts[0].y, pts[0].x, pts[1].y, pts[1].x),
                1,
            ),
            "stroke_rect" => stroke_rect(
                img3.slice_mut(0),
                Rect::from_tlbr(pts[0].y, pts[0].x, pts[1].y, pts[1].x),
                1,
                sw,
            ),
            "draw_line" => draw_line(
                img3.slice_mut(0),
                Line::from_endpoints(pts[0], pts[1]),
                1,
                sw,
            ),
            "draw_polygon" => draw_polygon(img3.slice_mut(0), &pts, 1, sw),
            "painter_polygon" => {
                let mut painter = Painter::new(img3);
                painter.set_stroke([1, 2, 3]);
                painter.set_stroke_width(sw);
                painter.draw_polygon(&pts);
            }
            "fill_iter" => {
                // The filling primitive itself: the pixels it yields are the
                // pixels a caller would modify.
                // (The shapes span at most a few hundred pixels; an iterator that
                // yields more is cut off and what it yielded so far is logged.)
                for (i, p) in Polygon::new(&pts[..]).fill_iter().enumerate() {
                    if i >= 1000 {
                        truncated = true;
                        break;
                    }
                    yielded.push(json!([p.y, p.x]));
                }
            }
            _ => panic!("unknown op {op}"),
        }
    });
    let mut changed: Vec<Value> = Vec::new();
    if op == "fill_iter" {
        changed = yielded;
    } else {
        for y in 0..bh {
            for x in 0..bw {
                if (0..chans).any(|c| buf[[c, y, x]] != 0) {
                    changed.push(json!([y as i64 - GUARD as i64, x as i64 - GUARD as i64]));
                }
            }
        }
    }
    match r {
        Ok(()) => trace.emit(json!({"ev": "dret", "outcome": if truncated { "truncated" } else { "ok" },
                                    "msg": "", "changed": changed})),
        Err(msg) => trace.emit(
            json!({"ev": "dret", "outcome": "panic", "msg": short(&msg), "changed": changed}),
        ),
    }
}

fn parse_sizes(s: &str) -> Vec<(usize, usize)> {
    s.split(',')
        .map(|hw| {
            let mut it = hw.split('x').map(|v| v.parse::<usize>().unwrap());
            (it.next().unwrap(), it.next().unwrap())
        })
        .collect()
}

pub fn main_draw() {
    quiet_panics();
    if arg("--worker").is_none() {
        // parent: run the cases in a watched worker process
        let out = arg("--out").expect("--out");
        let mut trace = Trace::create(&out);
        let mut args: Vec<String> = vec!["raster-draw".into()];
        for name in ["--shapes", "--img", "--img-small", "--only-case"] {
            if let Some(v) = arg(name) {
                args.push(name.into());
                args.push(v);
            }
        }
        let lost = |why: &str| json!({"ev": "dret", "outcome": why, "msg": "", "changed": []});
        let spec = crate::child::WorkerSpec {
            args,
            case_ev: "dcase",
            ret_ev: "dret",
            lost: &lost,
            timeout_ms: arg_usize("--timeout-ms", 1000) as u64,
            retry_timeout_ms: arg_usize("--retry-timeout-ms", 3000) as u64,
        };
        let n = crate::child::run_cases(&spec, &mut trace);
        trace.flush();
        println!("{{\"cases\": {n}}}");
        return;
    }
    let skip = arg_usize("--skip", 0);
    let limit = arg_usize("--limit", usize::MAX);
    let mut trace = Trace::create("-");
    let mut n = 0usize;
    // one case: counted, run when inside the [skip, skip + limit) window
    let mut case = |trace: &mut Trace, op: &str, h: usize, w: usize, pts: &Value, sw: u32| {
        if n >= skip && n - skip < limit {
            run_draw(trace, op, h, w, pts, sw);
        }
        n += 1;
    };
    // A single fully specified case (replay).
    if let Some(c) = arg("--only-case") {
        let c: Value = serde_json::from_str(&c).unwrap();
        case(
            &mut trace,
            c["op"].as_str().unwrap(),
            c["h"].as_u64().unwrap() as usize,
            c["w"].as_u64().unwrap() as usize,
            &c["pts"],
            c["sw"].as_u64().unwrap() as u32,
        );
        trace.flush();
        return;
    }
    let sizes = parse_sizes(&arg("--img").unwrap_or("5x7".to_string()));
    let small = parse_sizes(&arg("--img-small").unwrap_or("0x0,0x3,2x0,1x1".to_string()));
    let shapes = read_json_lines(&arg("--shapes").expect("--shapes"));
    for (i, s) in shapes.iter().enumerate() {
        let kind = s["kind"].as_str().unwrap();
        let pts = &s["pts"];
        let mut imgs = sizes.clone();
        // degenerate image sizes on a subset of the shapes
        if i % 7 == 0 {
            imgs.push(small[(i / 7) % small.len()]);
        }
        for (h, w) in imgs {
            match kind {
                "rect" => {
                    case(&mut trace, "fill_rect", h, w, pts, 0);
                    for sw in [0u32, 1, 2, 3] {
                        case(&mut trace, "stroke_rect", h, w, pts, sw);
                    }
                }
                "line" => {
                    for sw in [0u32, 1, 2, 3] {
                        case(&mut trace, "draw_line", h, w, pts, sw);
                    }
                }
                "poly" => {
                    case(&mut trace, "fill_iter", h, w, pts, 0);
                    case(&mut trace, "draw_polygon", h, w, pts, 1);
                    case(&mut trace, "draw_polygon", h, w, pts, 2);
                    case(&mut trace, "painter_polygon", h, w, pts, 1);
                }
                _ => panic!("shape kind {kind}"),
            }
        }
    }
    trace.flush();
}
