//! C35 engine: run the real convex_hull / min_area_rect / simplify_polygon /
//! simplify_polyline on integer-valued point sets (TLC-generated small grids,
//! transformed to several magnitudes, and seeded random sets) and log inputs
//! and outputs as integers.  `Trace_Geometry.tla` decides.

use rten_imageproc::{PointF, convex_hull, min_area_rect, simplify_polygon, simplify_polyline};
use vcommon::{Rng, Trace, Value, arg, arg_usize, guarded, json, quiet_panics, read_json_lines};

type Pt = (i64, i64); // (x, y)

const MAX_COORD: i64 = 1 << 20;

fn to_f(pts: &[Pt]) -> Vec<PointF> {
    pts.iter()
        .map(|&(x, y)| PointF::from_yx(y as f32, x as f32))
        .collect()
}

fn pts_json(pts: &[Pt]) -> Value {
    Value::Array(pts.iter().map(|&(x, y)| json!([x, y])).collect())
}

/// Integer-valued f32 points back to integers; `None` if a coordinate is not
/// an integer (such a point cannot be an input point).
fn exact(ps: &[PointF]) -> Option<Vec<Pt>> {
    let mut v = Vec::new();
    for p in ps {
        if !(p.x.is_finite() && p.y.is_finite()) || p.x.fract() != 0. || p.y.fract() != 0. {
            return None;
        }
        if p.x.abs() > 1e9 || p.y.abs() > 1e9 {
            return None;
        }
        v.push((p.x as i64, p.y as i64));
    }
    Some(v)
}

/// Power-of-two factor for logging the rectangle corners: as fine as 2^-10,
/// coarser for large coordinates (f32 carries no finer information there) so
/// that every logged number stays below 2^28.
fn scale_for(pts: &[Pt]) -> i64 {
    let m = pts
        .iter()
        .map(|&(x, y)| x.abs().max(y.abs()))
        .max()
        .unwrap_or(0)
        .max(1);
    let mut s = 1024i64;
    while s > 1 && m * s > (1 << 27) {
        s /= 2;
    }
    s
}

fn short(msg: &str) -> String {
    msg.chars().take(80).collect()
}

fn emit_ret(trace: &mut Trace, outcome: &str, is_exact: bool, out: Value, msg: &str) {
    trace.emit(json!({"ev": "gret", "outcome": outcome, "exact": is_exact, "out": out, "msg": short(msg)}));
}

fn run_case(trace: &mut Trace, op: &str, pts: &[Pt], eps4: i64, src: &str) {
    let scale = if op == "rect" { scale_for(pts) } else { 1 };
    trace.emit(json!({"ev": "gcase", "op": op, "pts": pts_json(pts), "eps4": eps4, "scale": scale, "src": src}));
    let fp = to_f(pts);
    let eps = eps4 as f32 / 4.0;
    match op {
        "hull" | "simp_polygon" | "simp_polyline" => {
            let r = guarded(|| match op {
                "hull" => convex_hull(&fp),
                "simp_polygon" => simplify_polygon(&fp, eps),
                _ => simplify_polyline(&fp, eps),
            });
            match r {
                Ok(out) => match exact(&out) {
                    Some(v) => emit_ret(trace, "ok", true, pts_json(&v), ""),
                    None => emit_ret(trace, "ok", false, json!([]), ""),
                },
                Err(msg) => emit_ret(trace, "panic", true, json!([]), &msg),
            }
        }
        "rect" => {
            let r = guarded(|| min_area_rect(&fp).map(|r| r.corners()));
            match r {
                Ok(None) => emit_ret(trace, "none", true, json!([]), ""),
                Ok(Some(cs)) => {
                    let mut v = Vec::new();
                    let mut fin = true;
                    for c in cs {
                        let (x, y) = (c.x as f64 * scale as f64, c.y as f64 * scale as f64);
                        if !(x.is_finite() && y.is_finite()) || x.abs() >= (1u64 << 30) as f64 || y.abs() >= (1u64 << 30) as f64 {
                            fin = false;
                            break;
                        }
                        v.push((x.round() as i64, y.round() as i64));
                    }
                    if fin {
                        emit_ret(trace, "ok", true, pts_json(&v), "");
                    } else {
                        emit_ret(trace, "nonfinite", true, json!([]), "");
                    }
                }
                Err(msg) => emit_ret(trace, "panic", true, json!([]), &msg),
            }
        }
        _ => panic!("op"),
    }
}

const EPS4: [i64; 6] = [0, 1, 2, 4, 6, 12];
const TRANSFORMS: [(i64, i64, i64); 5] = [
    (1, 0, 0),
    (1, 1_000_000, -1_000_000),
    (250_000, 0, 0),
    (37, -50, 70),
    (1, -3, -3),
];

fn all_ops(trace: &mut Trace, pts: &[Pt], idx: usize, src: &str, n: &mut usize) {
    run_case(trace, "hull", pts, 0, src);
    run_case(trace, "rect", pts, 0, src);
    *n += 2;
    if !pts.is_empty() {
        // simplify_polygon indexes points[0]: the empty polygon has no first point to keep
        run_case(trace, "simp_polygon", pts, EPS4[idx % EPS4.len()], src);
        *n += 1;
    }
    run_case(trace, "simp_polyline", pts, EPS4[(idx / 2 + 3) % EPS4.len()], src);
    *n += 1;
}

fn random_set(rng: &mut Rng) -> Vec<Pt> {
    let r = *rng.pick(&[3i64, 12, 50, 5000, 100_000, MAX_COORD]);
    let n = 1 + rng.below(12);
    let clampc = |v: i64| v.clamp(-MAX_COORD, MAX_COORD);
    match rng.below(7) {
        0 | 1 => (0..n).map(|_| (rng.range(-r, r), rng.range(-r, r))).collect(),
        2 => {
            // exactly collinear
            let (ax, ay) = (rng.range(-r / 2, r / 2), rng.range(-r / 2, r / 2));
            let (dx, dy) = (rng.range(-3, 3), rng.range(-3, 3));
            let tmax = (r / 8).max(2);
            (0..n)
                .map(|_| {
                    let t = rng.range(-tmax, tmax);
                    (clampc(ax + t * dx), clampc(ay + t * dy))
                })
                .collect()
        }
        3 => {
            // nearly collinear: off the line by at most one unit
            let (ax, ay) = (rng.range(-r / 2, r / 2), rng.range(-r / 2, r / 2));
            let (dx, dy) = (rng.range(-5, 5), rng.range(-5, 5));
            let tmax = (r / 12).max(2);
            (0..n)
                .map(|_| {
                    let t = rng.range(-tmax, tmax);
                    (clampc(ax + t * dx + rng.range(-1, 1)), clampc(ay + t * dy + rng.range(-1, 1)))
                })
                .collect()
        }
        4 => {
            // few distinct points, many repeats
            let pool: Vec<Pt> = (0..1 + rng.below(4)).map(|_| (rng.range(-r, r), rng.range(-r, r))).collect();
            (0..n).map(|_| *rng.pick(&pool)).collect()
        }
        5 => {
            // roughly on a circle: many hull vertices
            let rr = r as f64 * 0.9;
            (0..n)
                .map(|i| {
                    let a = (i as f64 + rng.below(100) as f64 / 100.0) * std::f64::consts::TAU / n as f64;
                    ((rr * a.cos()).round() as i64, (rr * a.sin()).round() as i64)
                })
                .collect()
        }
        _ => {
            // staircase / contour-like outline
            let step = (r / 16).max(1);
            let (mut x, mut y) = (rng.range(-r / 2, 0), rng.range(-r / 2, 0));
            let mut v = Vec::new();
            for i in 0..n {
                v.push((clampc(x), clampc(y)));
                if i % 2 == 0 {
                    x += rng.range(0, 2) * step;
                } else {
                    y += rng.range(-1, 2) * step;
                }
            }
            v
        }
    }
}

pub fn main_geometry() {
    quiet_panics();
    let out = arg("--out").expect("--out");
    let mut trace = Trace::create(&out);
    let mut n = 0usize;
    if let Some(c) = arg("--only-case") {
        let c: Value = serde_json::from_str(&c).unwrap();
        let pts: Vec<Pt> = c["pts"].as_array().unwrap().iter()
            .map(|p| (p[0].as_i64().unwrap(), p[1].as_i64().unwrap())).collect();
        run_case(&mut trace, c["op"].as_str().unwrap(), &pts, c["eps4"].as_i64().unwrap(), "replay");
        trace.flush();
        println!("{{\"cases\": 1}}");
        return;
    }
    if let Some(f) = arg("--sets") {
        // every TLC-generated set: identity transform for hull and rectangle ...
        let full = arg("--full").is_some();
        for (i, v) in read_json_lines(&f).iter().enumerate() {
            let base: Vec<Pt> = v["pts"].as_array().unwrap().iter()
                .map(|p| (p[0].as_i64().unwrap(), p[1].as_i64().unwrap())).collect();
            let tfs: Vec<usize> = if full { (0..TRANSFORMS.len()).collect() } else { vec![i % TRANSFORMS.len()] };
            for t in tfs {
                let (s, ox, oy) = TRANSFORMS[t];
                let pts: Vec<Pt> = base.iter().map(|&(x, y)| (x * s + ox, y * s + oy)).collect();
                all_ops(&mut trace, &pts, i + t, "tlc", &mut n);
            }
        }
    }
    let nrand = arg_usize("--random", 0);
    let mut rng = Rng::from_env();
    for i in 0..nrand {
        let pts = random_set(&mut rng);
        all_ops(&mut trace, &pts, i, "seeded", &mut n);
    }
    trace.flush();
    println!("{{\"cases\": {n}}}");
}
