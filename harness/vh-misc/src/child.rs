//! Local child-process case runner with a per-case watchdog.
//!
//! The worker (the same binary, started with `--worker --skip N`) prints
//! NDJSON records on stdout and flushes after every *case* record, i.e. before
//! it runs the case.  The parent forwards the records into the trace; when no
//! record arrives for `timeout_ms` the worker is killed, the case is re-run
//! once alone with a longer timeout (so a stalled machine is not mistaken for a
//! hang) and, if it still does not finish, a `ret` record with outcome
//! `timeout` is written and the worker is restarted after that case.  A worker
//! that dies (abort, segfault, OOM kill) yields outcome `abort` the same way.

use std::io::{BufRead, BufReader};
use std::process::{Child, Command, Stdio};
use std::sync::mpsc::{Receiver, RecvTimeoutError, channel};
use std::time::Duration;
use vcommon::{Trace, Value};

pub struct WorkerSpec<'a> {
    /// Arguments that select the engine and its inputs (without --worker/--skip/--limit).
    pub args: Vec<String>,
    /// `ev` of the record that starts a case.
    pub case_ev: &'a str,
    /// `ev` of the record that ends a case.
    pub ret_ev: &'a str,
    /// Builds the `ret` record for a case the worker did not survive.
    pub lost: &'a dyn Fn(&str) -> Value,
    pub timeout_ms: u64,
    pub retry_timeout_ms: u64,
}

fn spawn(args: &[String], skip: usize, limit: Option<usize>) -> (Child, Receiver<String>) {
    let exe = std::env::current_exe().unwrap();
    let mut cmd = Command::new(exe);
    cmd.args(args)
        .arg("--worker")
        .arg("--skip")
        .arg(skip.to_string())
        .stdin(Stdio::null())
        .stdout(Stdio::piped())
        .stderr(Stdio::null());
    if let Some(l) = limit {
        cmd.arg("--limit").arg(l.to_string());
    }
    let mut child = cmd.spawn().expect("spawn worker");
    let so = child.stdout.take().unwrap();
    let (tx, rx) = channel();
    std::thread::spawn(move || {
        for line in BufReader::new(so).lines() {
            match line {
                Ok(l) => {
                    if tx.send(l).is_err() {
                        break;
                    }
                }
                Err(_) => break,
            }
        }
    });
    (child, rx)
}

enum End {
    Done,
    /// worker lost while case (0-based index) was running
    Lost(&'static str),
}

/// Forward records of one worker run. `n` counts case records seen in total.
fn pump(
    spec: &WorkerSpec,
    trace: &mut Trace,
    skip: usize,
    limit: Option<usize>,
    timeout_ms: u64,
    n: &mut usize,
    hold_case: bool,
) -> (End, Vec<Value>) {
    let (mut child, rx) = spawn(&spec.args, skip, limit);
    let mut pending = false;
    // With hold_case the records of an unfinished case are returned instead of written.
    let mut held: Vec<Value> = Vec::new();
    // The worker's start-up (reading its input files, skipping) is not a case:
    // the watchdog proper starts with the first record.
    let mut first = true;
    loop {
        let wait = if first { timeout_ms.max(60_000) } else { timeout_ms };
        match rx.recv_timeout(Duration::from_millis(wait)) {
            Ok(line) => {
                first = false;
                let v: Value = match serde_json::from_str(&line) {
                    Ok(v) => v,
                    Err(_) => continue,
                };
                let ev = v["ev"].as_str().unwrap_or("").to_string();
                if ev == spec.case_ev {
                    pending = true;
                    *n += 1;
                }
                if hold_case {
                    held.push(v);
                } else {
                    trace.emit(v);
                }
                if ev == spec.ret_ev {
                    pending = false;
                    if hold_case {
                        for h in held.drain(..) {
                            trace.emit(h);
                        }
                    }
                }
            }
            Err(RecvTimeoutError::Timeout) => {
                let _ = child.kill();
                let _ = child.wait();
                return (End::Lost("timeout"), held);
            }
            Err(RecvTimeoutError::Disconnected) => {
                let st = child.wait().ok();
                let ok = st.map(|s| s.success()).unwrap_or(false);
                if ok && !pending {
                    return (End::Done, held);
                }
                return (End::Lost("abort"), held);
            }
        }
    }
}

/// Run all cases of the worker; returns the number of cases.
pub fn run_cases(spec: &WorkerSpec, trace: &mut Trace) -> usize {
    let mut n = vcommon::arg_usize("--start-at", 0);
    let mut idle_restarts = 0;
    loop {
        let before = n;
        let (end, _) = pump(spec, trace, n, None, spec.timeout_ms, &mut n, false);
        match end {
            End::Done => break,
            End::Lost(why) => {
                if n == before {
                    // The worker did not start any case (a stalled machine can delay its
                    // start-up beyond the watchdog): try again, then give up as a
                    // machinery problem.
                    idle_restarts += 1;
                    if idle_restarts > 3 {
                        eprintln!("worker produced no case after skip {before} ({why})");
                        std::process::exit(2);
                    }
                    std::thread::sleep(Duration::from_millis(1000));
                    continue;
                }
                idle_restarts = 0;
                // Case number n-1 (0-based) was running: its case record is already in
                // the trace.  Confirm by running it alone.
                let lost_idx = n - 1;
                let mut m = 0usize;
                let (end2, held) =
                    pump(spec, trace, lost_idx, Some(1), spec.retry_timeout_ms, &mut m, true);
                match end2 {
                    End::Done => {
                        // finished this time: `pump` wrote the held records only when it saw
                        // the ret record; drop the duplicate case record.
                        let _ = held;
                        // The trace now holds: case (first run), case + rets (second run).
                        // To keep the trace well formed the second run's case record is the
                        // one the spec uses (a case record simply resets the current case).
                    }
                    End::Lost(why) => {
                        trace.emit((spec.lost)(why));
                    }
                }
                trace.flush();
            }
        }
    }
    n
}
