"""Driver library for the rten TLA+ model-based verification checks.

A check for property <ID> is engines/<ID>.py with a function run(ctx).
It uses the helpers below:

  ctx.build(["vh-tensor"])                 cargo build --release of harness bins (from /repo's tree)
  ctx.tlc_mc(spec, cfg, ...)               model-check a spec; returns stats; a violated invariant of a
                                           *design-level* spec is a tool error (exit 2), never a VIOLATION
  ctx.tlc_generate(spec, cfg, out)         TLC as behaviour generator (REPLAY lines -> JSON lines file)
  ctx.harness(bin, args)                   run a harness binary (child); returns stdout
  ctx.tlc_trace(spec, cfg, trace)          validate an NDJSON trace from the real code against a trace spec;
                                           returns [bad cases], each {sig, rec}
  ctx.judge(bad, ...)                      match bad cases against known_findings.json; write replay files
  ctx.finish(...)                          write evidence, print verdict lines, exit

Exit codes: 0 held (possibly KNOWN-FINDING / DRIFT lines), 1 violation (VIOLATION lines), 2 tool error.
"""
import hashlib
import json
import os
import re
import shutil
import subprocess
import sys
import time

ROOT = os.path.dirname(os.path.dirname(os.path.abspath(__file__)))
# Overrides used only when validating a candidate repair in a scratch worktree (never by registered commands):
#   VERIF_HARNESS = a copy of harness/ whose path dependencies point at the scratch worktree
#   VERIF_OUT     = directory receiving work/, evidence/ and replays/ instead of /verif
#   VERIF_KNOWN   = alternative known_findings.json
HARNESS = os.environ.get("VERIF_HARNESS") or os.path.join(ROOT, "harness")
OUT = os.environ.get("VERIF_OUT") or ROOT
SPECS = os.path.join(ROOT, "specs")
TLA_JAR = "/opt/veriftools/tla/tla2tools.jar"
COMMUNITY = None


class ToolError(Exception):
    pass


def _find_community():
    global COMMUNITY
    if COMMUNITY is None:
        cands = []
        for d in ("/opt/veriftools/tla",):
            for f in os.listdir(d):
                if f.endswith(".jar"):
                    cands.append(os.path.join(d, f))
        COMMUNITY = ":".join(sorted(cands))
    return COMMUNITY


def tla_unescape(s):
    """Undo TLC's printing of a TLA+ string literal body."""
    out = []
    i = 0
    while i < len(s):
        c = s[i]
        if c == "\\" and i + 1 < len(s):
            n = s[i + 1]
            if n == "n":
                out.append("\n")
            elif n == "t":
                out.append("\t")
            else:
                out.append(n)
            i += 2
        else:
            out.append(c)
            i += 1
    return "".join(out)


_STR = r'"((?:[^"\\]|\\.)*)"'


class Ctx:
    def __init__(self, pid, tier, seed, replay=None):
        self.pid = pid
        self.tier = tier
        self.seed = seed
        self.replay = replay
        self.t0 = time.time()
        self.work = os.path.join(OUT, "work", pid)
        shutil.rmtree(self.work, ignore_errors=True)
        os.makedirs(self.work, exist_ok=True)
        os.makedirs(os.path.join(OUT, "evidence"), exist_ok=True)
        os.makedirs(os.path.join(OUT, "replays"), exist_ok=True)
        self.cov = {
            "states": 0,
            "transitions": 0,
            "traces_validated_against_impl": 0,
            "evaluations": 0,
            "distinct_nontrivial": 0,
            "samples": [],
            "mc_runs": [],
            "trace_runs": [],
            "drift": [],
            "notes": [],
        }
        self.assumptions = []
        self.violations = []  # list of (sig, rec, replay_path)
        self.known = []  # list of (finding, count)
        self.level = "model_checking"
        self.quick = tier == "quick"

    # ------------------------------------------------------------------ util
    def log(self, *a):
        print("[%s %6.1fs]" % (self.pid, time.time() - self.t0), *a, flush=True)

    def path(self, name):
        return os.path.join(self.work, name)

    def run(self, cmd, timeout=None, env=None, cwd=None, stdin=None):
        e = dict(os.environ)
        if env:
            e.update(env)
        try:
            p = subprocess.run(
                cmd, cwd=cwd, env=e, input=stdin, stdout=subprocess.PIPE,
                stderr=subprocess.STDOUT, timeout=timeout,
            )
        except subprocess.TimeoutExpired as ex:
            out = ex.stdout or b""
            return 124, out.decode("utf-8", "replace")
        return p.returncode, p.stdout.decode("utf-8", "replace")

    # ----------------------------------------------------------------- build
    def build(self, pkgs, profile="release"):
        """Build harness binaries against /repo's current working tree.
        profile: a cargo profile of the harness workspace ("release": overflow checks and debug
        assertions off - what users ship; "checked": release + overflow-checks + debug-assertions)."""
        cmd = ["cargo", "build", "--offline"]
        cmd += ["--release"] if profile == "release" else ["--profile", profile]
        jobs = os.environ.get("VERIF_CARGO_JOBS")
        if jobs:
            cmd += ["-j", jobs]
        for p in pkgs:
            cmd += ["-p", p]
        env = {"CARGO_NET_OFFLINE": "true"}
        t = time.time()
        rc, out = self.run(cmd, cwd=HARNESS, env=env, timeout=3600)
        if rc != 0:
            sys.stdout.write(out[-6000:])
            raise ToolError("cargo build (%s) failed for %s" % (profile, pkgs))
        self.log("built %s (%s) in %.1fs" % (",".join(pkgs), profile, time.time() - t))

    def bin(self, name, profile="release"):
        tgt = os.environ.get("CARGO_TARGET_DIR") or os.path.join(HARNESS, "target")
        return os.path.join(tgt, profile, name)

    def harness(self, binname, args, timeout=1800, env=None, stdin=None, ok_codes=(0,), profile="release"):
        e = {"VERIF_SEED": str(self.seed), "VERIF_TIER": self.tier}
        if env:
            e.update(env)
        t = time.time()
        rc, out = self.run([self.bin(binname, profile)] + [str(a) for a in args], timeout=timeout, env=e,
                           cwd=self.work, stdin=stdin)
        if rc not in ok_codes:
            sys.stdout.write(out[-4000:])
            raise ToolError("harness %s %s exited %s" % (binname, args, rc))
        self.log("harness %s %s: %.1fs" % (binname, " ".join(str(a) for a in args[:4]), time.time() - t))
        return out

    # ------------------------------------------------------------------- TLC
    def _tlc(self, spec, cfg, workers, timeout, env=None, extra=None, java_opts=None, heap="4g"):
        spec_dir = os.path.dirname(os.path.join(SPECS, spec))
        module = os.path.basename(spec)
        metadir = self.path("tlc_%s_%d" % (re.sub(r"\W", "_", module + "_" + os.path.basename(cfg)), int(time.time() * 1000) % 100000))
        jopts = "-Xss1g"
        if java_opts:
            jopts += " " + java_opts
        e = {"JAVA_TOOL_OPTIONS": jopts}
        if env:
            e.update(env)
        libpath = os.path.join(SPECS, "lib")
        cmd = [
            "java", "-XX:+UseParallelGC", "-Xmx" + heap, "-DTLA-Library=" + libpath,
            "-cp", _find_community(), "tlc2.TLC",
            "-workers", str(workers), "-metadir", metadir, "-cleanup", "-noGenerateSpecTE",
            "-config", os.path.join(SPECS, cfg),
        ]
        if extra:
            cmd += extra
        cmd += [module]
        t = time.time()
        rc, out = self.run(cmd, cwd=spec_dir, env=e, timeout=timeout)
        shutil.rmtree(metadir, ignore_errors=True)
        return rc, out, time.time() - t

    @staticmethod
    def _stats(out):
        m = None
        for m in re.finditer(r"(\d+) states generated, (\d+) distinct states found", out):
            pass
        if m:
            return int(m.group(1)), int(m.group(2))
        m = re.search(r"The number of states generated: (\d+)", out)
        if m:  # simulation mode
            return int(m.group(1)), int(m.group(1))
        return 0, 0

    def tlc_mc(self, spec, cfg, workers=8, timeout=1200, env=None, extra=None, expect_ok=True, heap="8g", label=None):
        """Model-check a design-level spec. A failure here is a tool error:
        design-level counterexamples are candidates, confirmed only through the real code."""
        rc, out, dt = self._tlc(spec, cfg, workers, timeout, env=env, extra=extra, heap=heap)
        gen, distinct = self._stats(out)
        ok = rc == 0 and "Model checking completed. No error has been found." in out
        info = {"spec": spec, "cfg": cfg, "states_generated": gen, "distinct_states": distinct,
                "ok": ok, "wall_s": round(dt, 1)}
        if label:
            info["label"] = label
        cov = re.findall(r"^<(\w+) line \d+, col \d+ to line \d+, col \d+ of module (\w+)>: (\d+):(\d+)", out, re.M)
        if cov:
            info["action_coverage"] = {"%s.%s" % (m, a): int(d) for a, m, d, _ in cov}
            zero = [k for k, v in info["action_coverage"].items() if v == 0]
            if zero:
                info["actions_never_taken"] = zero
        self.cov["mc_runs"].append(info)
        self.cov["states"] += distinct
        self.cov["transitions"] += gen
        self.log("TLC %s/%s: %d generated, %d distinct, ok=%s, %.1fs" % (spec, os.path.basename(cfg), gen, distinct, ok, dt))
        if expect_ok and not ok:
            sys.stdout.write(out[-5000:])
            raise ToolError("TLC model checking of %s with %s did not complete cleanly (rc=%s)" % (spec, cfg, rc))
        return info, out

    def apalache_inductive(self, spec, cinit, init, ind_init, inv, timeout=1500, label=None):
        """Apalache: show `inv` inductive for the typed design-level module `spec`
        (base: init => inv at length 0; step: ind_init /\ Next => inv' at length 1).
        Strictly additional to TLC + conformance: a design-level result, so anything
        but two clean NoError outcomes is a tool error, never a VIOLATION."""
        spec_dir = os.path.dirname(os.path.join(SPECS, spec))
        module = os.path.basename(spec) + ".tla"
        runs = []
        for name, i, length in (("base", init, 0), ("step", ind_init, 1)):
            out_dir = self.path("apalache_%s_%s" % (re.sub(r"\W", "_", module), name))
            cmd = ["apalache-mc", "check", "--out-dir=" + out_dir, "--cinit=" + cinit, "--init=" + i,
                   "--inv=" + inv, "--length=%d" % length, module]
            t = time.time()
            rc, out = self.run(cmd, cwd=spec_dir, timeout=timeout)
            dt = time.time() - t
            shutil.rmtree(out_dir, ignore_errors=True)
            ok = rc == 0 and "The outcome is: NoError" in out
            runs.append({"obligation": name, "init": i, "length": length, "ok": ok, "wall_s": round(dt, 1)})
            self.log("Apalache %s %s (%s => %s%s): ok=%s, %.1fs" % (spec, name, i, inv, "'" if length else "", ok, dt))
            if not ok:
                sys.stdout.write(out[-4000:])
                raise ToolError("Apalache could not discharge the %s obligation of %s for %s (rc=%s)" % (name, inv, spec, rc))
        info = {"spec": spec, "invariant": inv, "cinit": cinit, "obligations": runs, "ok": True}
        if label:
            info["label"] = label
        self.cov.setdefault("inductive_runs", []).append(info)
        return info

    def apalache_step_must_fail(self, spec, deps, cinit, ind_init, inv, module, old, new, timeout=900, label=None):
        """Sensitivity of the inductive step: a copy of the modules with one textual mutation
        (`old` -> `new` in `module`) must make the step obligation fail; otherwise the
        inductive argument is vacuous or too weak to notice that design change (tool error)."""
        spec_dir = os.path.dirname(os.path.join(SPECS, spec))
        tmp = self.path("apalache_mut_%d" % (int(time.time() * 1000) % 100000))
        os.makedirs(tmp)
        for m in deps:
            shutil.copy(os.path.join(spec_dir, m + ".tla"), tmp)
        mp = os.path.join(tmp, module + ".tla")
        text = open(mp).read()
        if text.count(old) != 1:
            raise ToolError("mutation anchor not found exactly once in %s" % module)
        open(mp, "w").write(text.replace(old, new))
        cmd = ["apalache-mc", "check", "--out-dir=" + os.path.join(tmp, "out"), "--cinit=" + cinit, "--init=" + ind_init,
               "--inv=" + inv, "--length=1", os.path.basename(spec) + ".tla"]
        t = time.time()
        rc, out = self.run(cmd, cwd=tmp, timeout=timeout)
        dt = time.time() - t
        shutil.rmtree(tmp, ignore_errors=True)
        found = rc == 12 and "The outcome is: Error" in out
        self.log("Apalache %s step with mutation (%s): counterexample found=%s, %.1fs" % (spec, label or new, found, dt))
        self.cov.setdefault("inductive_runs", []).append(
            {"spec": spec, "invariant": inv, "mutation": label or ("%s -> %s" % (old, new)), "step_fails_as_expected": found, "wall_s": round(dt, 1)})
        if not found:
            sys.stdout.write(out[-3000:])
            raise ToolError("mutated %s still passes the inductive step of %s: the argument does not see this change" % (module, inv))

    def tlc_generate(self, spec, cfg, outfile, workers=4, timeout=1200, env=None, extra=None, tag="REPLAY", heap="8g"):
        """Run TLC as a behaviour generator: collect <<"REPLAY", "<json>">> lines."""
        rc, out, dt = self._tlc(spec, cfg, workers, timeout, env=env, extra=extra, heap=heap)
        n = 0
        pat = re.compile(r'<<"%s", %s>>' % (tag, _STR))
        with open(outfile, "w") as f:
            for m in pat.finditer(out):
                f.write(tla_unescape(m.group(1)).replace("\n", " ") + "\n")
                n += 1
        gen, distinct = self._stats(out)
        self.cov["mc_runs"].append({"spec": spec, "cfg": cfg, "role": "generator", "behaviours": n,
                                    "states_generated": gen, "distinct_states": distinct, "wall_s": round(dt, 1)})
        self.cov["states"] += distinct
        self.cov["transitions"] += gen
        self.log("TLC generator %s/%s: %d behaviours, %d distinct states, %.1fs" % (spec, os.path.basename(cfg), n, distinct, dt))
        if n == 0 or (rc != 0 and "Model checking completed" not in out and "Finished in" not in out):
            if n == 0:
                sys.stdout.write(out[-5000:])
                raise ToolError("TLC generator %s produced no behaviours (rc=%s)" % (spec, rc))
        return n

    def tlc_trace(self, spec, cfg, trace, timeout=1800, env=None, heap="8g", ncases_key="case"):
        """Validate an NDJSON trace recorded from the real code against a trace spec.

        Protocol with the trace spec (specs/lib/TraceLib.tla):
          BADCASE lines:   <<"BADCASE", "<sig json>", "<record json>">>  one per failed contract predicate
          BADTOTAL line:   <<"BADTOTAL", n>>                             total number of failed predicates
          UNMATCHED line:  <<"UNMATCHED", k>>                            trace not consumed (spec cannot explain event k)
          STAT lines:      <<"STAT", "<name>", n>>                       counters measured by the spec
        Returns dict(bad=[{sig, rec}], badtotal, accepted, stats, events).
        """
        nlines = sum(1 for _ in open(trace))
        e = {"TRACE": os.path.abspath(trace)}
        if env:
            e.update(env)
        rc, out, dt = self._tlc(spec, cfg, 1, timeout, env=e, heap=heap,
                                java_opts="-Dtlc2.tool.queue.IStateQueue=StateDeque")
        bad = []
        for m in re.finditer(r'<<"BADCASE", %s, %s>>' % (_STR, _STR), out):
            try:
                sig = json.loads(tla_unescape(m.group(1)))
                rec = json.loads(tla_unescape(m.group(2)))
            except Exception as ex:  # pragma: no cover
                raise ToolError("cannot parse BADCASE line: %s" % ex)
            bad.append({"sig": sig, "rec": rec})
        mt = re.search(r'<<"BADTOTAL", (\d+)>>', out)
        badtotal = int(mt.group(1)) if mt else None
        counts = {}
        for m in re.finditer(r'<<"BADSIG", %s, (\d+)>>' % _STR, out):
            counts[json.dumps(json.loads(tla_unescape(m.group(1))), sort_keys=True)] = int(m.group(2))
        for b in bad:
            b["count"] = counts.get(json.dumps(b["sig"], sort_keys=True), 1)
        stats = {}
        for m in re.finditer(r'<<"STAT", "(\w+)", (-?\d+)>>', out):
            stats[m.group(1)] = int(m.group(2))
        unmatched = re.search(r'<<"UNMATCHED", (\d+)>>', out)
        accepted = (rc == 0 and "Model checking completed. No error has been found." in out
                    and unmatched is None and badtotal is not None)
        gen, distinct = self._stats(out)
        info = {"spec": spec, "cfg": cfg, "trace": os.path.basename(trace), "events": nlines,
                "accepted": accepted, "bad": badtotal, "stats": stats, "wall_s": round(dt, 1),
                "states": distinct}
        self.cov["trace_runs"].append(info)
        self.cov["states"] += distinct
        self.cov["transitions"] += gen
        self.log("TLC trace %s on %s: %d events, bad=%s accepted=%s %.1fs" % (spec, os.path.basename(trace), nlines, badtotal, accepted, dt))
        if not accepted:
            # The trace spec could not consume the trace: this is a machinery problem (format,
            # spec bug) unless the engine says otherwise; never reported as a violation.
            sys.stdout.write(out[-6000:])
            raise ToolError("trace spec %s did not accept trace %s (unmatched=%s rc=%s)" % (
                spec, trace, unmatched.group(1) if unmatched else None, rc))
        if badtotal != len(bad):
            raise ToolError("BADTOTAL %s != number of BADCASE lines %s" % (badtotal, len(bad)))
        return {"bad": bad, "badtotal": badtotal, "accepted": accepted, "stats": stats, "events": nlines, "out": out}

    # --------------------------------------------------------------- verdict
    def known_findings(self):
        p = os.environ.get("VERIF_KNOWN") or os.path.join(ROOT, "known_findings.json")
        if not os.path.exists(p):
            return []
        with open(p) as f:
            return json.load(f).get("findings", [])

    def judge(self, bad, engine, spec, cfg, case_lookup=None, badtotal=None):
        """Classify failed contract predicates: listed known findings -> KNOWN-FINDING; others -> VIOLATION
        with a replay file. `case_lookup(rec)` may return the full case (list of trace records) for the replay."""
        kf = [k for k in self.known_findings() if k.get("property") == self.pid and k.get("status") == "known"]
        seen_sig = {}
        for b in bad:
            sig = b["sig"]
            matched = None
            for k in kf:
                if all(sig.get(a) == v for a, v in k["signature"].items()):
                    matched = k
                    break
            if matched is not None:
                for i, (k, c) in enumerate(self.known):
                    if k is matched:
                        self.known[i] = (k, c + b.get("count", 1))
                        break
                else:
                    self.known.append((matched, b.get("count", 1)))
                continue
            key = json.dumps(sig, sort_keys=True)
            if key in seen_sig:
                seen_sig[key]["count"] += 1
                continue
            case = case_lookup(b["rec"]) if case_lookup else None
            h = hashlib.sha1((key + json.dumps(b["rec"], sort_keys=True)).encode()).hexdigest()[:10]
            rp = os.path.join(OUT, "replays", "%s-%s.json" % (self.pid, h))
            doc = {"property": self.pid, "engine": engine, "seed": self.seed, "tier": self.tier,
                   "spec": spec, "cfg": cfg, "signature": sig, "record": b["rec"], "case": case}
            with open(rp, "w") as f:
                json.dump(doc, f, indent=1)
            v = {"sig": sig, "rec": b["rec"], "replay": rp, "count": b.get("count", 1)}
            seen_sig[key] = v
            self.violations.append(v)

    def add_samples(self, samples, cap=5):
        for s in samples:
            if len(self.cov["samples"]) < cap:
                self.cov["samples"].append(s)

    def drift(self, note):
        self.cov["drift"].append(note)
        print("DRIFT property=%s %s" % (self.pid, note), flush=True)

    def finish(self, rule, assumptions=None, exhaustive=None, explanation=None):
        cov = dict(self.cov)
        cov["rule"] = rule
        if exhaustive is not None:
            cov["exhaustive"] = exhaustive
        if explanation:
            cov["explanation"] = explanation
        cov["known_findings_hit"] = [
            {"signature": k["signature"], "what": k["what"], "count": c} for k, c in self.known]
        cov["violations"] = [{"signature": v["sig"], "replay": v["replay"], "count": v["count"]} for v in self.violations]
        if not cov["samples"]:
            cov["samples"] = [{"note": "no sample recorded"}]
        ev = {
            "property_id": self.pid,
            "tier": self.tier,
            "seed": self.seed,
            "level": self.level,
            "coverage": cov,
            "assumptions": (assumptions or []) + self.assumptions,
            "wall_s": round(time.time() - self.t0, 1),
            "violations": len(self.violations),
        }
        if not self.replay:
            with open(os.path.join(OUT, "evidence", "%s.json" % self.pid), "w") as f:
                json.dump(ev, f, indent=1)
        for k, c in self.known:
            print("KNOWN-FINDING: property=%s %s (%d case(s) this run)" % (self.pid, k["what"], c), flush=True)
        for v in self.violations:
            print("VIOLATION property=%s replay=%s" % (self.pid, v["replay"]), flush=True)
            print("  signature=%s cases=%d" % (json.dumps(v["sig"], sort_keys=True), v["count"]), flush=True)
        shutil.rmtree(self.work, ignore_errors=True)
        if self.violations:
            self.log("FAILED: %d violation signature(s)" % len(self.violations))
            sys.exit(1)
        self.log("OK: property held on everything explored (states=%d traces=%d evaluations=%d)" % (
            cov["states"], cov["traces_validated_against_impl"], cov["evaluations"]))
        sys.exit(0)


def load_replay(path):
    with open(path) as f:
        return json.load(f)


def scan_cases(trace, key_fields, nontrivial=None, ev="case", sample_n=3):
    """Count case records in an NDJSON trace: total, distinct by key_fields, distinct & non-trivial.
    Returns (total, distinct, distinct_nontrivial, samples)."""
    seen = set()
    nt = 0
    total = 0
    samples = []
    with open(trace) as f:
        for line in f:
            if '"ev":"%s"' % ev not in line and '"ev": "%s"' % ev not in line:
                continue
            r = json.loads(line)
            if r.get("ev") != ev:
                continue
            total += 1
            key = json.dumps([r.get(k) for k in key_fields], sort_keys=True)
            if key in seen:
                continue
            seen.add(key)
            if nontrivial is None or nontrivial(r):
                nt += 1
                if len(samples) < sample_n:
                    samples.append({k: r.get(k) for k in key_fields})
    return total, len(seen), nt, samples


def sample_lines(src, dst, n, seed):
    """Deterministically sample n lines of src into dst (all if n >= count)."""
    import random
    lines = open(src).read().splitlines()
    rnd = random.Random(seed)
    if n < len(lines):
        lines = rnd.sample(lines, n)
    with open(dst, "w") as f:
        f.write("\n".join(lines) + "\n")
    return len(lines)
