"""C02 - Run results are independent of execution strategy.

Executor.tla: SSA graphs with in-place capable / commutative operators, repeated operands, outputs that
are also intermediate inputs, owned vs borrowed inputs; the transcription of Graph::run_plan's rule (usage
counts incl. requested outputs, take only owned values with count 1, commutative operators take the largest
owned operand) is model-checked to refine the contract (a value is only overwritten when nobody reads it
afterwards) on EVERY graph of the family. The same graphs are built as real rten Graphs with synthetic
mixer operators whose in-place path really overwrites the taken buffer, and run under the strategy matrix
(pool on/off, thread pools, inputs owned/borrowed, constants, different output sets, never-in-place
reference); TLC computes the naive evaluation and compares every output (Trace_Executor.tla)."""
import sys, os
sys.path.insert(0, os.path.dirname(__file__))
import _execlib


def run(ctx):
    _execlib.run_exec(ctx, "C02")
    # real operators with an in-place path (Slice with mixed steps, Clip with omitted bounds, broadcast
    # binary operators, layout operators, ...) under owned/borrowed inputs, extra requested outputs, pools
    _execlib.run_realops(ctx, "C02")
    # real operators: MatMul with constant weights (chained, inside If branches, shared with a transposed
    # use), prepacking on/off x optimisation on/off x thread pools, judged against integer products in TLA+
    # and MatMulInteger with a constant i8 weight packed at load time, before the scalar / per-column zero
    # points are known (mmint family)
    t = ctx.path("prepack.ndjson")
    ncases = 160 if ctx.quick else 4000
    ctx.harness("vh-graph", ["exec-prepack", "--cases", ncases, "--out", t])
    res = ctx.tlc_trace("graph/Trace_Prepack", "graph/Trace_Prepack.cfg", t, timeout=3000)
    ctx.judge(res["bad"], "vh-graph exec-prepack", "graph/Trace_Prepack", "graph/Trace_Prepack.cfg")
    ctx.cov["prepack_model_runs"] = res["stats"].get("runs", 0)
    ctx.cov["evaluations"] += res["stats"].get("runs", 0)
    ctx.finish(rule="case = one TLC-generated graph executed 9 times under the strategy matrix; evaluations = runs; distinct_nontrivial = distinct graphs with >= 1 in-place capable operator",
               assumptions=["synthetic mixer operators (harness-defined through the rten::verif hook) stand in for real operators: injective-enough integer mixing, a real in-place path, pool allocation",
                            "prepacking / subgraph weight caches / thread pools are varied on real MatMul and MatMulInteger models (integer-valued data, zero points); the order of ready operators is not varied (the plan is a sequence; C03 checks plans)"],
               exhaustive=not ctx.quick)
