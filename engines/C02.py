"""C02 - Run results are independent of execution strategy.

Executor.tla: SSA graphs with in-place capable / commutative operators, repeated operands, outputs that
are also intermediate inputs, owned vs borrowed inputs; the transcription of Graph::run_plan's rule (usage
counts incl. requested outputs, take only owned values with count 1, commutative operators take the largest
owned operand) is model-checked to refine the contract (a value is only overwritten when nobody reads it
afterwards) on EVERY graph of the family. The same graphs are built as real rten Graphs with synthetic
mixer operators whose in-place path really overwrites the taken buffer, and run under the strategy matrix
(pool on/off, thread pools, inputs owned/borrowed, constants, different output sets, never-in-place
reference); TLC computes the naive evaluation and compares every output (Trace_Executor.tla)."""
import sys, os
sys.path.insert(0, os.path.dirname(__file__))
import _execlib


def run(ctx):
    _execlib.run_exec(ctx, "C02")
    ctx.finish(rule="case = one TLC-generated graph executed 9 times under the strategy matrix; evaluations = runs; distinct_nontrivial = distinct graphs with >= 1 in-place capable operator",
               assumptions=["synthetic mixer operators (harness-defined through the rten::verif hook) stand in for real operators: injective-enough integer mixing, a real in-place path, pool allocation",
                            "prepacked weights and the order of ready operators are not varied here (the plan is a sequence; C03 checks plans, C16 checks prepacking)"],
               exhaustive=not ctx.quick)
