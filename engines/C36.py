"""C36 - Contour tracing and drawing stay on the image.

spec -> impl: TLC model-checks the Raster contract operators on EVERY mask up to 3x3 (quick) /
4x4 (thorough) and emits those masks; the harness runs the real find_contours (List and External)
on each of them and on seeded random/structured masks up to 8x8 in contiguous, transposed and
strided layouts.  TLC also generates a grid of rectangles, lines, triangles and quadrilaterals with
coordinates inside and outside a 5x7 image; the harness runs fill_rect, stroke_rect, draw_line,
draw_polygon, Painter::draw_polygon and Polygon::fill_iter on each (in a watched child process)
and logs the changed pixels.  Trace_Raster.tla judges every call (R1-R3 of Raster.tla)."""
import json
import os
import re
import threading
import time

import vlib

SPEC_T, CFG_T = "misc/Trace_Raster", "misc/Trace_Raster.cfg"


def mc_generate(ctx, spec, cfg, outfile, workers=4, timeout=1500, label=None):
    """One TLC run that both model-checks the invariants of `spec` and emits REPLAY vectors."""
    rc, out, dt = ctx._tlc(spec, cfg, workers, timeout, heap="8g")
    ok = rc == 0 and "Model checking completed. No error has been found." in out
    n = 0
    pat = re.compile(r'<<"REPLAY", %s>>' % vlib._STR)
    with open(outfile, "w") as f:
        for m in pat.finditer(out):
            f.write(vlib.tla_unescape(m.group(1)).replace("\n", " ") + "\n")
            n += 1
    gen, distinct = ctx._stats(out)
    ctx.cov["mc_runs"].append({"spec": spec, "cfg": cfg, "role": "model checking + generator", "label": label,
                               "behaviours": n, "states_generated": gen, "distinct_states": distinct,
                               "ok": ok, "wall_s": round(dt, 1)})
    ctx.cov["states"] += distinct
    ctx.cov["transitions"] += gen
    ctx.log("TLC %s/%s: %d distinct states, %d vectors, ok=%s, %.1fs" % (spec, os.path.basename(cfg), distinct, n, ok, dt))
    if not ok or n == 0:
        print(out[-5000:])
        raise vlib.ToolError("TLC run of %s with %s did not complete cleanly (rc=%s)" % (spec, cfg, rc))
    return n


def split_trace(path, nparts, case_evs):
    """Split an NDJSON trace into <= nparts files at case boundaries."""
    lines = open(path).read().splitlines()
    if nparts <= 1 or len(lines) < 20000:
        return [path]
    target = (len(lines) + nparts - 1) // nparts
    parts, cur = [], []
    for ln in lines:
        if len(cur) >= target and any('"ev":"%s"' % e in ln for e in case_evs):
            parts.append(cur)
            cur = []
        cur.append(ln)
    if cur:
        parts.append(cur)
    out = []
    for i, p in enumerate(parts):
        fn = "%s.part%d" % (path, i)
        with open(fn, "w") as f:
            f.write("\n".join(p) + "\n")
        out.append(fn)
    return out


def validate_parallel(ctx, traces, timeout=3000):
    """Run Trace_Raster over several trace files concurrently (one JVM each)."""
    results, errors = [None] * len(traces), []

    def work(i, t):
        try:
            results[i] = ctx.tlc_trace(SPEC_T, CFG_T, t, timeout=timeout)
        except BaseException as ex:  # re-raised in the main thread
            errors.append(ex)

    threads = []
    for i, t in enumerate(traces):
        th = threading.Thread(target=work, args=(i, t))
        th.start()
        threads.append(th)
        time.sleep(0.3)  # distinct metadir names
    for th in threads:
        th.join()
    if errors:
        raise errors[0]
    bad, stats = [], {}
    for r in results:
        bad += r["bad"]
        for k, v in r["stats"].items():
            stats[k] = stats.get(k, 0) + v
    # merge per-signature counts across parts
    merged = {}
    for b in bad:
        key = json.dumps(b["sig"], sort_keys=True)
        if key in merged:
            merged[key]["count"] += b.get("count", 1)
        else:
            merged[key] = b
    return list(merged.values()), stats


def run(ctx):
    ctx.build(["vh-misc"])
    if ctx.replay:
        return replay(ctx)
    q = ctx.quick
    # 1. contract operators model-checked on every small mask; the masks are the test vectors
    masks = ctx.path("masks.jsonl")
    nm = mc_generate(ctx, "misc/MC_Raster", "misc/MC_Raster_3.cfg" if q else "misc/MC_Raster_4.cfg", masks,
                     workers=4, label="all masks up to %s" % ("3x3" if q else "4x4"))
    shapes = ctx.path("shapes.jsonl")
    ns = mc_generate(ctx, "misc/MC_RasterShapes",
                     "misc/MC_RasterShapes_quick.cfg" if q else "misc/MC_RasterShapes_thorough.cfg", shapes,
                     workers=4, label="shape grid")
    # a few fixed extra shapes (zero-width polygons with three distinct y: the generator throttles these)
    with open(shapes, "a") as f:
        for pts in ([[-3, -3], [-1, -3], [0, -3]], [[1, 2], [2, 2], [4, 2]], [[0, 0], [1, 0], [3, 0], [2, 0]]):
            f.write(json.dumps({"kind": "poly", "pts": pts}) + "\n")
    # 2. the real code
    ctrace = ctx.path("contours.ndjson")
    ctx.harness("vh-misc", ["raster-contours", "--masks", masks, "--out", ctrace,
                            "--random", 700 if q else 8000, "--max-size", 8])
    dtrace = ctx.path("draw.ndjson")
    ctx.harness("vh-misc", ["raster-draw", "--shapes", shapes, "--out", dtrace], timeout=3000)
    if not q:
        selftest(ctx, ctrace, dtrace)
    # 3. judged by the spec
    traces = split_trace(ctrace, 1 if q else 4, ["cmask"]) + split_trace(dtrace, 1 if q else 4, ["dcase"])
    bad, stats = validate_parallel(ctx, traces)
    finish(ctx, [ctrace, dtrace], bad, stats, nm, ns, exhaustive=True)


def finish(ctx, traces, bad, stats, nm, ns, exhaustive):
    total = dnt = 0
    for t in traces:
        if "contours" in os.path.basename(t):
            tot, _, nt, samples = vlib.scan_cases(
                t, ["h", "w", "mask", "mode", "layout"], ev="cmask", sample_n=2,
                nontrivial=lambda r: 0 < sum(sum(row) for row in r["mask"]) < r["h"] * r["w"])
        else:
            tot, _, nt, samples = vlib.scan_cases(
                t, ["op", "h", "w", "pts", "sw"], ev="dcase", sample_n=3,
                nontrivial=lambda r: r["h"] * r["w"] > 0 and len(r["pts"]) > 0)
        total += tot
        dnt += nt
        ctx.add_samples(samples)
    ctx.cov["evaluations"] = total
    ctx.cov["distinct_nontrivial"] = dnt
    ctx.cov["traces_validated_against_impl"] = total
    ctx.cov["masks_generated_by_tlc"] = nm
    ctx.cov["shapes_generated_by_tlc"] = ns
    ctx.cov["spec_stats"] = stats
    nto = count_outcome(traces, "timeout") + count_outcome(traces, "abort")
    if stats.get("points_not_4adjacent", 0):
        ctx.cov["notes"].append("%d contour points are adjacent to background only diagonally (accepted by reading R1)"
                                % stats["points_not_4adjacent"])
    if stats.get("draw_panics", 0):
        ctx.cov["notes"].append("%d of %d drawing calls panicked (index out of bounds / negative coordinate for shapes "
                                "reaching outside the image); not forbidden by the statement, R3 is judged on the pixels "
                                "changed before the panic" % (stats["draw_panics"], stats.get("draw_cases", 0)))
    if nto:
        note = ("%d drawing call(s) did not return within the watchdog (Polygon::fill_iter on zero-width polygons "
                "spins ~2^32 steps per scan line); the statement of C36 does not speak about termination, so this is "
                "recorded, not flagged" % nto)
        ctx.cov["notes"].append(note)
        print("NOTE property=C36 " + note, flush=True)
    ctx.judge(bad, "vh-misc raster", SPEC_T, CFG_T, case_lookup=lambda rec: rec.get("case"))
    ctx.finish(
        rule="contour cases = (mask, retrieval mode, layout): every mask up to NxN generated by TLC (N=3 quick, 4 thorough) "
             "plus seeded masks up to 8x8; non-trivial = mask has both foreground and background. drawing cases = "
             "(primitive, image size, TLC-generated shape, stroke width); non-trivial = non-empty image and shape. "
             "distinct by all listed fields",
        assumptions=["changed pixels are observed by drawing value 1 (Painter: 1,2,3) on a zeroed buffer that extends "
                     "3 pixels beyond the image view on every side",
                     "NdTensor::from_data_with_strides / slice_mut build the views as requested (C09)",
                     "a call that does not return within 1 s, and again within 3 s when re-run alone, is a timeout"],
        exhaustive=exhaustive)


def selftest(ctx, ctrace, dtrace):
    """Binding self-test: corrupt recorded fields of the real trace; Trace_Raster must flag each."""
    def pairs(path, cev):
        prev = None
        with open(path) as f:
            for line in f:
                rec = json.loads(line)
                if prev is not None and prev["ev"] == cev and rec["ev"] != cev:
                    yield prev, rec
                prev = rec
    out, want = [], set()
    done = set()
    for c, r in pairs(ctrace, "cmask"):
        r = json.loads(json.dumps(r))
        if "pt" not in done and r["contours"] and c["mode"] == "list":
            r["contours"][0][0] = [-1, 0]                      # a contour point off the mask
            done.add("pt"); out += [c, r]; want.add("point_not_on_border")
        elif "drop" not in done and len(r["contours"]) >= 2 and c["mode"] == "list":
            r["contours"] = r["contours"][:1]                  # a component loses its contour
            done.add("drop"); out += [c, r]; want.add("component_without_contour")
        if len(done) == 2:
            break
    for c, r in pairs(dtrace, "dcase"):
        if c["op"] == "fill_rect" and r["outcome"] == "ok" and r["changed"] and c["h"] == 5:
            r = json.loads(json.dumps(r))
            r["changed"].append([c["pts"][1][0], c["pts"][1][1]])   # the excluded bottom-right corner
            r2 = json.loads(json.dumps(r)); r2["changed"] = [[-1, 0]]
            out += [c, r, c, r2]; want |= {"outside_shape_bounds", "outside_image"}
            break
    if len(want) < 4:
        raise vlib.ToolError("self-test could not find records to corrupt")
    st = ctx.path("selftest.ndjson")
    with open(st, "w") as f:
        f.write("\n".join(json.dumps(x) for x in out) + "\n")
    res = ctx.tlc_trace(SPEC_T, CFG_T, st)
    got = {b["sig"]["pred"] for b in res["bad"]}
    ctx.cov["binding_self_test"] = {"corrupted_records": len(out) // 2, "expected": sorted(want), "flagged": sorted(got)}
    if not want <= got:
        raise vlib.ToolError("binding self-test: corrupted trace not rejected (expected %s, got %s)" % (want, got))
    ctx.log("binding self-test: corrupted records rejected with %s" % sorted(got))


def count_outcome(traces, what):
    n = 0
    for t in traces:
        with open(t) as f:
            for line in f:
                if '"outcome":"%s"' % what in line:
                    n += 1
    return n


def replay(ctx):
    case = ctx.replay["case"]
    if case["ev"] == "cmask":
        masks = ctx.path("masks.jsonl")
        with open(masks, "w") as f:
            f.write(json.dumps({"h": case["h"], "w": case["w"], "mask": case["mask"]}) + "\n")
        trace = ctx.path("contours.ndjson")
        ctx.harness("vh-misc", ["raster-contours", "--masks", masks, "--out", trace, "--all-layouts"])
    else:
        trace = ctx.path("draw.ndjson")
        ctx.harness("vh-misc", ["raster-draw", "--out", trace, "--only-case", json.dumps(case)])
    res = ctx.tlc_trace(SPEC_T, CFG_T, trace)
    finish(ctx, [trace], res["bad"], res["stats"], 0, 0, exhaustive=False)
