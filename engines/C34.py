"""C34 - Tensor file formats round-trip and reject malformed files.

The store state machine of Serialize.tla (Write / Corrupt / Read -> value | error) is model-checked
on a tiny universe; the harness drives the real rten-serialize writers and readers (.npy, .npz,
.safetensors; writer/reader and file APIs, read-all and read_array) through that machine in a watched
child process: every supported dtype, shapes including 0-d and empty, contiguous / permuted /
strided / broadcast views, ordinary and odd entry names, special bit patterns; then the written bytes
are corrupted (bit flips, truncation, appended / random bytes, length fields, textual header edits
with huge or inconsistent shapes, dtypes and offsets, zip signatures) and read again.
Trace_Serialize.tla follows the machine event by event and judges every read (S1, S2)."""
import json
import os
import threading
import time

import vlib

SPEC_T, CFG_T = "misc/Trace_Serialize", "misc/Trace_Serialize.cfg"


def split_trace(path, nparts, case_ev):
    lines = open(path).read().splitlines()
    if nparts <= 1 or len(lines) < 40000:
        return [path]
    target = (len(lines) + nparts - 1) // nparts
    parts, cur = [], []
    for ln in lines:
        if len(cur) >= target and '"ev":"%s"' % case_ev in ln:
            parts.append(cur)
            cur = []
        cur.append(ln)
    if cur:
        parts.append(cur)
    out = []
    for i, p in enumerate(parts):
        fn = "%s.part%d" % (path, i)
        with open(fn, "w") as f:
            f.write("\n".join(p) + "\n")
        out.append(fn)
    return out


def validate_parallel(ctx, traces, timeout=3000):
    results, errors = [None] * len(traces), []

    def work(i, t):
        try:
            results[i] = ctx.tlc_trace(SPEC_T, CFG_T, t, timeout=timeout)
        except BaseException as ex:
            errors.append(ex)

    threads = []
    for i, t in enumerate(traces):
        th = threading.Thread(target=work, args=(i, t))
        th.start()
        threads.append(th)
        time.sleep(0.3)
    for th in threads:
        th.join()
    if errors:
        raise errors[0]
    merged, stats = {}, {}
    for r in results:
        for k, v in r["stats"].items():
            stats[k] = stats.get(k, 0) + v
        for b in r["bad"]:
            key = json.dumps(b["sig"], sort_keys=True)
            if key in merged:
                merged[key]["count"] += b.get("count", 1)
            else:
                merged[key] = b
    return list(merged.values()), stats


def run(ctx):
    ctx.level = "exploration"   # the conformance side samples the input space (see manifest level_note)
    ctx.build(["vh-misc"])
    if ctx.replay:
        return replay(ctx)
    q = ctx.quick
    ctx.tlc_mc("misc/MC_Serialize", "misc/MC_Serialize.cfg", workers=4, timeout=600)
    trace = ctx.path("serialize.ndjson")
    ctx.harness("vh-misc", ["serialize", "--cases", 15000 if q else 90000, "--corrupt", 8 if q else 10, "--out", trace],
                timeout=3000)
    if not q:
        selftest(ctx, trace)
    bad, stats = validate_parallel(ctx, split_trace(trace, 1 if q else 6, "scase"))
    finish(ctx, trace, bad, stats)


def finish(ctx, trace, bad, stats):
    # evaluations = reads judged; distinct non-trivial = distinct (format, written entries, corruption) read situations
    # whose file holds at least one element or is corrupted
    seen, reads, nt = set(), 0, 0
    samples = []
    fmt, written, corrupt = None, None, ""
    with open(trace) as f:
        for line in f:
            r = json.loads(line)
            ev = r["ev"]
            if ev == "scase":
                fmt, written, corrupt = r["fmt"], None, ""
            elif ev == "swrite":
                written = r["entries"]
            elif ev == "scorrupt":
                corrupt = corrupt + "|" + r["what"]
            elif ev == "sread" and written is not None:
                reads += 1
                key = json.dumps([fmt, written, corrupt, r["how"], r["name"]], sort_keys=True)
                if key not in seen:
                    seen.add(key)
                    if corrupt or any(e["tensor"]["elems"] for e in written):
                        nt += 1
                        if len(samples) < 3 and (len(samples) == 0) == (corrupt == ""):
                            samples.append({"fmt": fmt, "written": written, "corruption": corrupt, "read": r["how"],
                                            "outcome": r["outcome"]})
    ctx.cov["evaluations"] = reads
    ctx.cov["distinct_nontrivial"] = nt
    ctx.cov["traces_validated_against_impl"] = stats.get("cases", 0)
    ctx.cov["spec_stats"] = stats
    ctx.add_samples(samples)
    if stats.get("keys_changed", 0):
        ctx.drift("%d intact archive reads returned the written tensors under keys other than the expected ones "
                  "(names are not part of the statement)" % stats["keys_changed"])
    if stats.get("write_errors", 0):
        ctx.cov["notes"].append("%d writes returned an error (not a violation: nothing was written)" % stats["write_errors"])
    ctx.judge(bad, "vh-misc serialize", SPEC_T, CFG_T, case_lookup=lambda rec: {"idx": rec.get("idx")})
    ctx.finish(
        rule="case i = (format i mod 3, dtype/shape/name swept with i, seeded layout, elements and corruptions); every read "
             "(whole file and per entry; intact, then after each of 8-10 corruptions) is one evaluation; distinct by "
             "(format, written entries, corruption history, read kind); non-trivial = corrupted file or at least one element",
        assumptions=["element equality is equality of bit patterns (NaN payloads, -0.0 preserved)",
                     "a read that does not return within 5 s (15 s when re-run alone) is a hang",
                     "no address-space limit is imposed: huge allocations requested by corrupt headers are only seen if "
                     "they make the reader fail or stall"],
        exhaustive=False)


def selftest(ctx, trace):
    """Binding self-test: corrupt recorded fields of intact reads; Trace_Serialize must flag each."""
    recs = []
    with open(trace) as f:
        for line in f:
            recs.append(json.loads(line))
            if len(recs) > 4000:
                break
    # first case with a non-empty tensor
    out, want = [], set()
    i = 0
    while i < len(recs) and len(want) < 3:
        if recs[i]["ev"] == "scase":
            j = i + 1
            while j < len(recs) and recs[j]["ev"] not in ("sdone", "slost", "scase"):
                j += 1
            case = recs[i:j + 1]
            wr = [r for r in case if r["ev"] == "swrite"]
            rd = [k for k, r in enumerate(case) if r["ev"] == "sread" and r["how"] == "all" and r["outcome"] == "value"]
            if wr and rd and wr[0]["entries"][0]["tensor"]["elems"] and case[-1]["ev"] == "sdone":
                k = rd[0]
                for mut in ("elem", "dtype", "panic"):
                    c = json.loads(json.dumps(case[:k + 1] + [case[-1]]))
                    r = c[k]
                    if mut == "elem":
                        r["entries"][0]["tensor"]["elems"][0] = [1, 2, 3]
                    elif mut == "dtype":
                        r["entries"][0]["tensor"]["dtype"] = "f64" if r["entries"][0]["tensor"]["dtype"] != "f64" else "i64"
                    else:
                        r["outcome"], r["entries"] = "panic", []
                    out += c
                    want.add(mut)
            i = j
        else:
            i += 1
    if len(want) < 3:
        raise vlib.ToolError("self-test could not find records to corrupt")
    st = ctx.path("selftest.ndjson")
    with open(st, "w") as f:
        f.write("\n".join(json.dumps(x) for x in out) + "\n")
    res = ctx.tlc_trace(SPEC_T, CFG_T, st)
    got = {b["sig"]["pred"] for b in res["bad"]}
    expect = {"read_back_differs", "read_panics", "read_back_fails"}
    ctx.cov["binding_self_test"] = {"corrupted_cases": 3, "expected": sorted(expect), "flagged": sorted(got)}
    if not expect <= got:
        raise vlib.ToolError("binding self-test: corrupted trace not rejected (expected %s, got %s)" % (expect, got))
    ctx.log("binding self-test: corrupted records rejected with %s" % sorted(got))


def replay(ctx):
    # the failing read is identified by its case index: re-run that single case
    idx = (ctx.replay.get("case") or {}).get("idx")
    if idx is None:
        raise vlib.ToolError("replay file has no case index")
    trace = ctx.path("serialize.ndjson")
    ctx.harness("vh-misc", ["serialize", "--first", idx, "--cases", 1, "--corrupt", 8 if ctx.quick else 10, "--out", trace])
    res = ctx.tlc_trace(SPEC_T, CFG_T, trace)
    finish(ctx, trace, res["bad"], res["stats"])
