"""C34 - Tensor file formats round-trip and reject malformed files.

The store state machine of Serialize.tla (Write / Corrupt / Read -> value | error) is model-checked
on a tiny universe; the harness drives the real rten-serialize writers and readers (.npy, .npz,
.safetensors; writer/reader and file APIs, read-all and read_array) through that machine in a watched
child process: every supported dtype, shapes including 0-d and empty, contiguous / permuted /
strided / broadcast views, ordinary and odd entry names, special bit patterns; then the written bytes
are corrupted (bit flips, truncation, appended / random bytes, length fields, textual header edits
with huge or inconsistent shapes, dtypes and offsets, zip signatures) and read again.

Untrusted header numbers (spec -> impl): MC_SerializeHdr.tla generates, for every item size 1/2/4/8,
syntactically valid headers whose shape dims sit just below / at / above every boundary of the
readers' arithmetic (element count and byte count against 2^32, 2^63, 2^64/item size, 2^64: one
huge dim, two dims whose product crosses, a zero dim next to huge dims, many dims, dims beyond 64
bits) for .npy, .npz members and .safetensors, plus the safetensors header-length field and
data_offsets at their boundaries (begin > end, end beyond the file, 2^64-1, 8 + length wrapping);
the payload matches the WRAPPED byte count, so wrapping arithmetic finds what it expects.  The
harness builds each file and reads it with the real readers; Trace_Serialize.tla decides with exact
Word-limb arithmetic (H1-H4): never a panic, and a value only if byte count = element count x item
size fits in 64 bits and is covered by the payload / offsets, with the header's shape and dtype.

Both corpora run through TWO builds of the harness: the `release` profile (what users ship:
overflow wraps) and the `checked` profile (overflow checks and debug assertions, i.e. the panics a
debug build raises); the profile is part of every signature.
Trace_Serialize.tla follows the machine event by event and judges every read (S1, S2, H1-H4)."""
import json
import os
import re
import threading
import time

import vlib

SPEC_T, CFG_T = "misc/Trace_Serialize", "misc/Trace_Serialize.cfg"


def mc_generate(ctx, spec, cfg, outfile, workers=4, timeout=1500, label=None):
    """One TLC run that both model-checks the invariants of `spec` and emits REPLAY vectors."""
    rc, out, dt = ctx._tlc(spec, cfg, workers, timeout, heap="8g")
    ok = rc == 0 and "Model checking completed. No error has been found." in out
    n = 0
    pat = re.compile(r'<<"REPLAY", %s>>' % vlib._STR)
    with open(outfile, "w") as f:
        for m in pat.finditer(out):
            f.write(vlib.tla_unescape(m.group(1)).replace("\n", " ") + "\n")
            n += 1
    gen, distinct = ctx._stats(out)
    ctx.cov["mc_runs"].append({"spec": spec, "cfg": cfg, "role": "model checking + generator", "label": label,
                               "behaviours": n, "states_generated": gen, "distinct_states": distinct,
                               "ok": ok, "wall_s": round(dt, 1)})
    ctx.cov["states"] += distinct
    ctx.cov["transitions"] += gen
    ctx.log("TLC %s/%s: %d distinct states, %d vectors, ok=%s, %.1fs" % (spec, os.path.basename(cfg), distinct, n, ok, dt))
    if not ok or n == 0:
        print(out[-5000:])
        raise vlib.ToolError("TLC run of %s with %s did not complete cleanly (rc=%s)" % (spec, cfg, rc))
    return n


def split_trace(path, nparts, case_ev):
    lines = open(path).read().splitlines()
    if nparts <= 1 or len(lines) < 40000:
        return [path]
    target = (len(lines) + nparts - 1) // nparts
    parts, cur = [], []
    for ln in lines:
        if len(cur) >= target and '"ev":"%s"' % case_ev in ln:
            parts.append(cur)
            cur = []
        cur.append(ln)
    if cur:
        parts.append(cur)
    out = []
    for i, p in enumerate(parts):
        fn = "%s.part%d" % (path, i)
        with open(fn, "w") as f:
            f.write("\n".join(p) + "\n")
        out.append(fn)
    return out


def validate_parallel(ctx, traces, timeout=3000):
    results, errors = [None] * len(traces), []

    def work(i, t):
        try:
            results[i] = ctx.tlc_trace(SPEC_T, CFG_T, t, timeout=timeout)
        except BaseException as ex:
            errors.append(ex)

    threads = []
    for i, t in enumerate(traces):
        th = threading.Thread(target=work, args=(i, t))
        th.start()
        threads.append(th)
        time.sleep(0.3)
    for th in threads:
        th.join()
    if errors:
        raise errors[0]
    merged, stats = {}, {}
    for r in results:
        for k, v in r["stats"].items():
            stats[k] = stats.get(k, 0) + v
        for b in r["bad"]:
            key = json.dumps(b["sig"], sort_keys=True)
            if key in merged:
                merged[key]["count"] += b.get("count", 1)
            else:
                merged[key] = b
    return list(merged.values()), stats


PROFILES = ("release", "checked")


def run(ctx):
    ctx.level = "exploration"   # the conformance side samples the input space (see manifest level_note)
    for prof in PROFILES:
        ctx.build(["vh-misc"], profile=prof)
    if ctx.replay:
        return replay(ctx)
    q = ctx.quick
    hdrs = ctx.path("headers.jsonl")
    gen = {}

    def model_side():   # runs beside the harness: the two TLC model-checking / generation runs
        try:
            ctx.tlc_mc("misc/MC_Serialize", "misc/MC_Serialize.cfg", workers=2, timeout=900)
            gen["nh"] = mc_generate(ctx, "misc/MC_SerializeHdr", "misc/MC_SerializeHdr.cfg", hdrs, workers=4,
                                    label="boundary family of untrusted header numbers")
        except BaseException as ex:
            gen["err"] = ex

    th = threading.Thread(target=model_side)
    th.start()
    traces, htraces = [], []
    for prof in PROFILES:
        t = ctx.path("serialize_%s.ndjson" % prof)
        ctx.harness("vh-misc", ["serialize", "--cases", 3000 if q else 45000, "--corrupt", 8 if q else 10, "--out", t],
                    timeout=3000, profile=prof)
        traces.append(t)
    parts = []
    for t in traces:
        parts += split_trace(t, 1 if q else 3, "scase")
    bad, stats = validate_parallel(ctx, parts)
    th.join()
    if "err" in gen:
        raise gen["err"]
    for prof in PROFILES:
        ht = ctx.path("headers_%s.ndjson" % prof)
        ctx.harness("vh-misc", ["serialize-hdr", "--headers", hdrs, "--out", ht], timeout=3000, profile=prof)
        htraces.append(ht)
    if not q:
        selftest(ctx, traces[0], htraces[0])
    bad2, stats2 = validate_parallel(ctx, htraces)
    for k, v in stats2.items():
        stats[k] = stats.get(k, 0) + v
    finish(ctx, traces, htraces, bad + bad2, stats, gen["nh"])


def finish(ctx, traces, htraces, bad, stats, nh):
    # evaluations = reads judged; distinct non-trivial = distinct (profile, format, written entries, corruption) read
    # situations whose file holds at least one element or is corrupted, plus distinct crafted headers per profile
    seen, reads, nt = set(), 0, 0
    samples = []
    for trace in traces:
        fmt, written, corrupt, prof = None, None, "", ""
        with open(trace) as f:
            for line in f:
                r = json.loads(line)
                ev = r["ev"]
                if ev == "scase":
                    fmt, written, corrupt, prof = r["fmt"], None, "", r["profile"]
                elif ev == "swrite":
                    written = r["entries"]
                elif ev == "scorrupt":
                    corrupt = corrupt + "|" + r["what"]
                elif ev == "sread" and written is not None:
                    reads += 1
                    key = json.dumps([prof, fmt, written, corrupt, r["how"], r["name"]], sort_keys=True)
                    if key not in seen:
                        seen.add(key)
                        if corrupt or any(e["tensor"]["elems"] for e in written):
                            nt += 1
                            if len(samples) < 2 and (len(samples) == 0) == (corrupt == ""):
                                samples.append({"profile": prof, "fmt": fmt, "written": written, "corruption": corrupt,
                                                "read": r["how"], "outcome": r["outcome"]})
    hsample = None
    for trace in htraces:
        case = None
        with open(trace) as f:
            for line in f:
                r = json.loads(line)
                if r["ev"] == "hcase":
                    case = r
                elif r["ev"] == "hret" and case is not None:
                    reads += 1
                    key = json.dumps([case["profile"], case["fmt"], case["how"], case["dtype"], case["dims"], case["avail"],
                                      case["hlen"], case["begin"], case["end"]])
                    if key not in seen:
                        seen.add(key)
                        nt += 1
                        if hsample is None and len(case["dims"]) == 2 and r["outcome"] == "error":
                            hsample = {"profile": case["profile"], "fmt": case["fmt"], "dtype": case["dtype"],
                                       "dims_as_limbs": case["dims"], "payload_bytes_as_limbs": case["avail"],
                                       "outcome": r["outcome"], "msg": r["msg"]}
                    case = None
    if hsample:
        samples.append(hsample)
    ctx.cov["evaluations"] = reads
    ctx.cov["distinct_nontrivial"] = nt
    ctx.cov["traces_validated_against_impl"] = stats.get("cases", 0) + stats.get("crafted_header_reads", 0)
    ctx.cov["crafted_headers_generated_by_tlc"] = nh
    ctx.cov["profiles"] = list(PROFILES)
    ctx.cov["spec_stats"] = stats
    ctx.add_samples(samples)
    if htraces and not ctx.replay and stats.get("crafted_header_values", 0) == 0:
        # machinery sanity: the crafted files with small consistent headers must be readable, otherwise the family
        # would only exercise the parsers' syntax errors
        raise vlib.ToolError("no crafted header was read successfully: the crafted files are not well-formed")
    if stats.get("keys_changed", 0):
        ctx.drift("%d intact archive reads returned the written tensors under keys other than the expected ones "
                  "(names are not part of the statement)" % stats["keys_changed"])
    if stats.get("write_errors", 0):
        ctx.cov["notes"].append("%d writes returned an error (not a violation: nothing was written)" % stats["write_errors"])
    ctx.judge(bad, "vh-misc serialize", SPEC_T, CFG_T,
              case_lookup=lambda rec: rec.get("case") or {"idx": rec.get("idx"), "profile": rec.get("profile")})
    ctx.finish(
        rule="(1) case i = (format i mod 3, dtype/shape/name swept with i, seeded layout, elements and corruptions); every read "
             "(whole file and per entry; intact, then after each of 8-10 corruptions) is one evaluation; (2) every header of "
             "the TLC-generated boundary family (format, item size, shape dims, payload, header length, data offsets) is one "
             "read; both run under the release and the checked build profile. distinct by (profile, format, written entries "
             "or header numbers, corruption history, read kind); non-trivial = corrupted file, crafted header, or at least "
             "one element",
        assumptions=["element equality is equality of bit patterns (NaN payloads, -0.0 preserved)",
                     "a read that does not return within 5 s (15 s when re-run alone) is a hang",
                     "the checked profile (release + overflow-checks + debug-assertions) stands for debug builds",
                     "no address-space limit is imposed: huge allocations requested by corrupt headers are only seen if "
                     "they make the reader fail or stall"],
        exhaustive=False)


def selftest(ctx, trace, htrace):
    """Binding self-test: corrupt recorded fields of intact reads; Trace_Serialize must flag each."""
    recs = []
    with open(trace) as f:
        for line in f:
            recs.append(json.loads(line))
            if len(recs) > 4000:
                break
    # first case with a non-empty tensor
    out, want = [], set()
    i = 0
    while i < len(recs) and len(want) < 3:
        if recs[i]["ev"] == "scase":
            j = i + 1
            while j < len(recs) and recs[j]["ev"] not in ("sdone", "slost", "scase"):
                j += 1
            case = recs[i:j + 1]
            wr = [r for r in case if r["ev"] == "swrite"]
            rd = [k for k, r in enumerate(case) if r["ev"] == "sread" and r["how"] == "all" and r["outcome"] == "value"]
            if wr and rd and wr[0]["entries"][0]["tensor"]["elems"] and case[-1]["ev"] == "sdone":
                k = rd[0]
                for mut in ("elem", "dtype", "panic"):
                    c = json.loads(json.dumps(case[:k + 1] + [case[-1]]))
                    r = c[k]
                    if mut == "elem":
                        r["entries"][0]["tensor"]["elems"][0] = [1, 2, 3]
                    elif mut == "dtype":
                        r["entries"][0]["tensor"]["dtype"] = "f64" if r["entries"][0]["tensor"]["dtype"] != "f64" else "i64"
                    else:
                        r["outcome"], r["entries"] = "panic", []
                    out += c
                    want.add(mut)
            i = j
        else:
            i += 1
    # crafted headers: turn an error on an overflowing header into a value; change the shape of a returned value
    hc = None
    with open(htrace) as f:
        for line in f:
            r = json.loads(line)
            if r["ev"] == "hcase":
                hc = r
            elif r["ev"] == "hret" and hc is not None:
                if "hv" not in want and r["outcome"] == "error" and any(len(d) >= 5 for d in hc["dims"]):
                    r2 = dict(r, outcome="value", has_value=True, dtype=hc["dtype"], shape=hc["dims"], nelem=[])
                    out += [hc, r2]; want.add("hv")
                elif "hs" not in want and r["outcome"] == "value" and len(hc["dims"]) == 2:
                    r2 = dict(r, shape=[hc["dims"][1], hc["dims"][0]])
                    out += [hc, r2]; want.add("hs")
                hc = None
            if {"hv", "hs"} <= want:
                break
    if len(want) < 5:
        raise vlib.ToolError("self-test could not find records to corrupt")
    st = ctx.path("selftest.ndjson")
    with open(st, "w") as f:
        f.write("\n".join(json.dumps(x) for x in out) + "\n")
    res = ctx.tlc_trace(SPEC_T, CFG_T, st)
    got = {b["sig"]["pred"] for b in res["bad"]}
    expect = {"read_back_differs", "read_panics", "read_back_fails", "value_from_inconsistent_header", "value_differs_from_header"}
    ctx.cov["binding_self_test"] = {"corrupted_cases": 5, "expected": sorted(expect), "flagged": sorted(got)}
    if not expect <= got:
        raise vlib.ToolError("binding self-test: corrupted trace not rejected (expected %s, got %s)" % (expect, got))
    ctx.log("binding self-test: corrupted records rejected with %s" % sorted(got))


def replay(ctx):
    case = ctx.replay.get("case") or {}
    prof = case.get("profile") or "release"
    if case.get("ev") == "hcase":
        # a crafted header: rebuild the same file from the logged numbers
        hdrs = ctx.path("headers.jsonl")
        d = {"idx": case["idx"], "fmt": case["fmt"], "isz": case["isz"], "dims": case["dims"], "avail": case["avail"],
             "hlen": {"kind": "abs" if case["fmt"] == "safetensors" else "actual", "v": case["hlen"]},
             "begin": case["begin"], "end": case["end"]}
        with open(hdrs, "w") as f:
            f.write(json.dumps(d) + "\n")
        ht = ctx.path("headers_%s.ndjson" % prof)
        ctx.harness("vh-misc", ["serialize-hdr", "--headers", hdrs, "--out", ht], profile=prof)
        res = ctx.tlc_trace(SPEC_T, CFG_T, ht)
        return finish(ctx, [], [ht], res["bad"], res["stats"], 1)
    # the failing read is identified by its case index: re-run that single case
    idx = case.get("idx")
    if idx is None:
        raise vlib.ToolError("replay file has no case index")
    trace = ctx.path("serialize_%s.ndjson" % prof)
    ctx.harness("vh-misc", ["serialize", "--first", idx, "--cases", 1, "--corrupt", 8 if ctx.quick else 10, "--out", trace],
                profile=prof)
    res = ctx.tlc_trace(SPEC_T, CFG_T, trace)
    finish(ctx, [trace], [], res["bad"], res["stats"], 0)
