"""C13 - In-place and commuted operator execution match normal execution.

impl -> spec: `vh-ops relational inplace` drives every catalogue operator that declares
in_place_inputs() or is_commutative() (operator objects decoded by the real ONNX loader):
Operator::run, then Operator::run_in_place with the executor's calling convention on owned copies
(exact / spare-capacity / permuted / gapped / capacity-reserved buffers), then run with swapped
operands for commutative operators.  Every second case of a bit-exact float operator draws elements from an
extreme-value pool (+-inf, NaN, +-0, f32::MAX/MIN, smallest normal, subnormals, +-1; NaNs compare as
"both NaN" in OpContracts.SameElements), and every case is crossed with each pattern of omitted optional
inputs the operator accepts (subsets of the connected non-in-place inputs on which Operator::run succeeds).  TLC validates the trace with Trace_Relational.tla
(OpContracts.InPlaceEqualsNormal / CommutedEqualsNormal on shape, dtype and bits) and checks that
every in-place call is one the executor transcription (OpContracts.Taken, model-checked against its
closed form in MC_OpContracts) can make."""
import collections
import json

import vlib

SPEC = "ops/Trace_Relational"
CFG = "ops/Trace_Relational.cfg"


def scan(trace):
    """Operators x variants actually exercised (counts measured from the trace)."""
    ops = collections.OrderedDict()
    seen = set()
    total = distinct = nontrivial = 0
    samples = []
    cur = None
    with open(trace) as f:
        for line in f:
            r = json.loads(line)
            if r["ev"] == "case":
                cur = r
                o = ops.setdefault(r["key"], {"op": r["op"], "cases": 0, "dtypes": {}, "classes": {}, "runs": {}, "normal_ok": 0, "present": {}, "values": {}})
                o["present"][r["present"]] = o["present"].get(r["present"], 0) + 1
                o["values"][r["vals"]] = o["values"].get(r["vals"], 0) + 1
                o["cases"] += 1
                o["dtypes"][r["dt"]] = o["dtypes"].get(r["dt"], 0) + 1
                o["classes"][r["cls"]] = o["classes"].get(r["cls"], 0) + 1
                total += 1
                key = json.dumps([r["key"], r["inputs"]], sort_keys=True)
                cur["_new"] = key not in seen
                seen.add(key)
                if cur["_new"]:
                    distinct += 1
                continue
            o = ops[cur["key"]]
            if r["mode"] == "normal":
                if r["outcome"] == "ok":
                    o["normal_ok"] += 1
                    # non-trivial: normal execution succeeded with a non-empty output, so the
                    # in-place / commuted comparisons of this case are real comparisons
                    if cur["_new"] and any(len(v["bits"]) or len(v["items"]) for v in r["outputs"]):
                        nontrivial += 1
                        if len(samples) < 3:
                            samples.append({"key": cur["key"], "dt": cur["dt"], "cls": cur["cls"], "inputs": cur["inputs"]})
                continue
            tag = r["mode"] if r["mode"] != "inplace" else "inplace:%s@%s" % (r["owned"], ",".join(map(str, r["taken"])))
            o["runs"][tag] = o["runs"].get(tag, 0) + 1
    return ops, total, distinct, nontrivial, samples


def merge(dst, src):
    for k, o in src.items():
        d = dst.setdefault(k, {"op": o["op"], "cases": 0, "dtypes": {}, "classes": {}, "runs": {}, "normal_ok": 0, "present": {}, "values": {}})
        d["cases"] += o["cases"]
        d["normal_ok"] += o["normal_ok"]
        for f in ("dtypes", "classes", "runs", "present", "values"):
            for a, b in o[f].items():
                d[f][a] = d[f].get(a, 0) + b


def run(ctx):
    ctx.level = "exploration"
    ctx.build(["vh-ops"])
    ctx.tlc_mc("ops/MC_OpContracts", "ops/MC_OpContracts.cfg", workers=2, timeout=600, label="executor in-place calling convention")
    if ctx.replay:
        batches = [("replay", ["--only-case", json.dumps(ctx.replay["record"]["case"])])]
    elif ctx.quick:
        batches = [("q", ["--cases", 48])]
    else:
        # several moderately sized traces (the trace spec loads a whole trace into memory)
        batches = [("t%d" % i, ["--cases", 70, "--all-classes"]) for i in range(12)]
        # tensors above the 32K-element chunk size of the parallel elementwise kernels
        batches.append(("big", ["--only", "big/", "--big", "--cases", 2, "--all-classes"]))
    st = collections.Counter()
    ops, total, distinct, nontrivial, samples, bad = collections.OrderedDict(), 0, 0, 0, [], []
    for i, (tag, args) in enumerate(batches):
        trace = ctx.path("inplace_%s.ndjson" % tag)
        ctx.harness("vh-ops", ["relational", "inplace", "--out", trace] + args, timeout=3000,
                    env={"VERIF_SEED": str(ctx.seed + 1000003 * i)})
        res = ctx.tlc_trace(SPEC, CFG, trace, timeout=3000, heap="12g")
        st.update(res["stats"])
        bad += res["bad"]
        o, t, d, n, s = scan(trace)
        merge(ops, o)
        total, distinct, nontrivial = total + t, distinct + d, nontrivial + n
        samples += s
    if st.get("bad_convention", 0) != 0:
        raise vlib.ToolError("harness called run_in_place in a way the executor model does not allow (%d runs)" % st["bad_convention"])
    ctx.cov["evaluations"] = st.get("runs", 0)
    ctx.cov["distinct_nontrivial"] = nontrivial
    ctx.cov["traces_validated_against_impl"] = total
    ctx.cov["cases"] = total
    ctx.cov["distinct_cases"] = distinct
    ctx.cov["comparisons_against_successful_normal_run"] = st.get("compared", 0)
    ctx.cov["normal_run_failed_nothing_required"] = st.get("ref_failed", 0)
    ctx.cov["bits_differ_within_rounding_bound"] = st.get("rounding_only", 0)
    ctx.cov["cases_with_nonfinite_float_inputs"] = sum(o["values"].get("nonfinite", 0) for o in ops.values())
    ctx.cov["input_presence_patterns"] = sum(len(o["present"]) for o in ops.values())
    ctx.cov["operators_exercised"] = len(ops)
    ctx.cov["operators"] = ops
    ctx.add_samples(samples)
    ctx.judge(bad, "vh-ops relational inplace", SPEC, CFG)
    ctx.finish(
        rule="case = (catalogue operator variant, element type, seeded inputs); every case runs Operator::run, then "
             "run_in_place for each executor calling convention x owned-buffer class, then swapped operands if commutative; "
             "distinct by (operator variant, inputs); non-trivial = normal run succeeded with a non-empty output",
        assumptions=["the catalogue generators produce inputs on which Operator::run succeeds (measured: normal_ok per operator)",
                     "two NaN elements are treated as equal whatever their payload/sign (payload propagation is not part of the property); "
                     "rten-gemm based operators (num >= 1) keep finite inputs",
                     "an omission pattern is 'accepted' when Operator::run succeeds on it",
                     "operators whose result is a rten-gemm sum of products are compared bit-exactly on integer-valued data and "
                     "within the rounding bound of OpContracts.tla otherwise (DESIGN 6.2)",
                     "thread pool: 4 threads for both sides of every comparison"],
        exhaustive=False)
