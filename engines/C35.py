"""C35 - Polygon algorithms return geometrically valid results.

spec -> impl: TLC model-checks the Geometry contract (exact integer arithmetic, BigInt) on EVERY
point sequence of up to 4 points in a 3x3 (quick) / 4x4 (thorough) grid and emits them; the harness
runs the real convex_hull, min_area_rect, simplify_polygon, simplify_polyline on a seeded sample of
them (translated / scaled up to |coordinate| = 2^20) and on seeded random sets (uniform, collinear,
nearly collinear, duplicates, circle-like, staircase; up to 12 points).  Trace_Geometry.tla judges
every result (G1-G4 of Geometry.tla)."""
import json
import os
import re
import threading
import time

import vlib

SPEC_T, CFG_T = "misc/Trace_Geometry", "misc/Trace_Geometry.cfg"


def mc_generate(ctx, spec, cfg, outfile, workers=4, timeout=1500, label=None):
    """One TLC run that both model-checks the invariants of `spec` and emits REPLAY vectors."""
    rc, out, dt = ctx._tlc(spec, cfg, workers, timeout, heap="8g")
    ok = rc == 0 and "Model checking completed. No error has been found." in out
    n = 0
    pat = re.compile(r'<<"REPLAY", %s>>' % vlib._STR)
    with open(outfile, "w") as f:
        for m in pat.finditer(out):
            f.write(vlib.tla_unescape(m.group(1)).replace("\n", " ") + "\n")
            n += 1
    gen, distinct = ctx._stats(out)
    ctx.cov["mc_runs"].append({"spec": spec, "cfg": cfg, "role": "model checking + generator", "label": label,
                               "behaviours": n, "states_generated": gen, "distinct_states": distinct,
                               "ok": ok, "wall_s": round(dt, 1)})
    ctx.cov["states"] += distinct
    ctx.cov["transitions"] += gen
    ctx.log("TLC %s/%s: %d distinct states, %d vectors, ok=%s, %.1fs" % (spec, os.path.basename(cfg), distinct, n, ok, dt))
    if not ok or n == 0:
        print(out[-5000:])
        raise vlib.ToolError("TLC run of %s with %s did not complete cleanly (rc=%s)" % (spec, cfg, rc))
    return n


def split_trace(path, nparts, case_ev):
    lines = open(path).read().splitlines()
    if nparts <= 1 or len(lines) < 4000:
        return [path]
    target = (len(lines) + nparts - 1) // nparts
    parts, cur = [], []
    for ln in lines:
        if len(cur) >= target and '"ev":"%s"' % case_ev in ln:
            parts.append(cur)
            cur = []
        cur.append(ln)
    if cur:
        parts.append(cur)
    out = []
    for i, p in enumerate(parts):
        fn = "%s.part%d" % (path, i)
        with open(fn, "w") as f:
            f.write("\n".join(p) + "\n")
        out.append(fn)
    return out


def validate_parallel(ctx, traces, timeout=3000):
    results, errors = [None] * len(traces), []

    def work(i, t):
        try:
            results[i] = ctx.tlc_trace(SPEC_T, CFG_T, t, timeout=timeout)
        except BaseException as ex:
            errors.append(ex)

    threads = []
    for i, t in enumerate(traces):
        th = threading.Thread(target=work, args=(i, t))
        th.start()
        threads.append(th)
        time.sleep(0.3)
    for th in threads:
        th.join()
    if errors:
        raise errors[0]
    merged, stats = {}, {}
    for r in results:
        for k, v in r["stats"].items():
            stats[k] = stats.get(k, 0) + v
        for b in r["bad"]:
            key = json.dumps(b["sig"], sort_keys=True)
            if key in merged:
                merged[key]["count"] += b.get("count", 1)
            else:
                merged[key] = b
    return list(merged.values()), stats


def run(ctx):
    ctx.level = "exploration"   # the conformance side samples the input space (see manifest level_note)
    ctx.build(["vh-misc"])
    if ctx.replay:
        return replay(ctx)
    q = ctx.quick
    sets_all = ctx.path("sets_all.jsonl")
    ns = mc_generate(ctx, "misc/MC_Geometry", "misc/MC_Geometry_quick.cfg" if q else "misc/MC_Geometry_thorough.cfg",
                     sets_all, workers=4, label="all sequences of <= 4 points in a %s grid" % ("3x3" if q else "4x4"))
    sets = ctx.path("sets.jsonl")
    nsel = vlib.sample_lines(sets_all, sets, 350 if q else 7000, ctx.seed)
    trace = ctx.path("geometry.ndjson")
    ctx.harness("vh-misc", ["geometry", "--sets", sets, "--random", 350 if q else 7000, "--out", trace])
    if not q:
        selftest(ctx, trace)
    bad, stats = validate_parallel(ctx, split_trace(trace, 1 if q else 6, "gcase"))
    finish(ctx, trace, bad, stats, ns, nsel)


def finish(ctx, trace, bad, stats, ns, nsel):
    def nontrivial(r):
        return len({tuple(p) for p in r["pts"]}) >= 3

    total, _, dnt, samples = vlib.scan_cases(trace, ["op", "pts", "eps4"], nontrivial, ev="gcase", sample_n=4)
    ctx.cov["evaluations"] = total
    ctx.cov["distinct_nontrivial"] = dnt
    ctx.cov["traces_validated_against_impl"] = total
    ctx.cov["point_sets_generated_by_tlc"] = ns
    ctx.cov["point_sets_replayed"] = nsel
    ctx.cov["spec_stats"] = stats
    ctx.add_samples(samples)
    ctx.judge(bad, "vh-misc geometry", SPEC_T, CFG_T, case_lookup=lambda rec: rec.get("case"))
    ctx.finish(
        rule="case = (algorithm, integer point sequence, epsilon in quarters); point sequences = seeded sample of the "
             "TLC-enumerated grid sequences under 5 affine maps (identity, +-10^6 offset, x250000, x37 with offset, "
             "negative offset) + seeded random sets of 1..12 points with |coordinate| <= 2^20; distinct by "
             "(algorithm, points, epsilon); non-trivial = at least 3 distinct points",
        assumptions=["coordinates are integer-valued f32 (exact up to 2^24); results of convex_hull/simplify_* are "
                     "compared as exact integers, rectangle corners are logged times a power of two (<= 2^10) and rounded",
                     "rectangle containment and epsilon-closeness allow the slack 1/64 + M/2^16 stated in Geometry.tla "
                     "(M = largest coordinate magnitude); hull convexity/containment are exact",
                     "minimality of the rectangle's area is not part of the statement and is not checked"],
        exhaustive=False)


def selftest(ctx, trace):
    """Binding self-test: corrupt results in the recorded trace; Trace_Geometry must flag each."""
    out, want = [], set()
    prev = None
    with open(trace) as f:
        for line in f:
            rec = json.loads(line)
            if prev is not None and prev["ev"] == "gcase" and rec["ev"] == "gret" and rec["outcome"] == "ok":
                c, r = prev, json.loads(json.dumps(rec))
                distinct = len({tuple(p) for p in c["pts"]})
                if c["op"] == "hull" and len(r["out"]) >= 4 and "hull" not in want:
                    r2 = json.loads(json.dumps(r)); r2["out"] = r["out"][1:]          # drop a hull vertex
                    r3 = json.loads(json.dumps(r)); r3["out"][0], r3["out"][1] = r["out"][1], r["out"][0]  # cross the outline
                    r4 = json.loads(json.dumps(r)); r4["out"][0] = [r["out"][0][0] + 3000000, r["out"][0][1]]
                    out += [c, r2, c, r3, c, r4]; want.add("hull")
                elif c["op"] == "rect" and distinct >= 3 and "rect" not in want:
                    s = c["scale"]
                    span = max(abs(v) for p in c["pts"] for v in p) + 1
                    r["out"] = [[x + 2 * span * s, y] for x, y in r["out"]]              # move the rectangle away
                    out += [c, r]; want.add("rect")
                elif c["op"] == "simp_polyline" and 2 <= len(r["out"]) < len(c["pts"]) and distinct >= 4 and "simp" not in want:
                    r2 = json.loads(json.dumps(r)); r2["out"] = r["out"][::-1]          # not a subsequence / first dropped
                    out += [c, r2]; want.add("simp")
                elif c["op"] == "simp_polygon" and c["eps4"] == 0 and len(r["out"]) >= 3 and distinct >= 4 and "far" not in want:
                    r2 = json.loads(json.dumps(r)); r2["out"] = r["out"][:1]            # everything removed with epsilon 0
                    out += [c, r2]; want.add("far")
            prev = rec
            if len(want) == 4:
                break
    if len(want) < 4:
        raise vlib.ToolError("self-test could not find records to corrupt (%s)" % want)
    st = ctx.path("selftest.ndjson")
    with open(st, "w") as f:
        f.write("\n".join(json.dumps(x) for x in out) + "\n")
    res = ctx.tlc_trace(SPEC_T, CFG_T, st)
    got = {b["sig"]["pred"] for b in res["bad"]}
    expect = {"point_outside_hull", "not_convex", "not_input_points", "point_outside_rect", "removed_point_too_far"}
    ctx.cov["binding_self_test"] = {"corrupted_records": len(out) // 2, "expected": sorted(expect), "flagged": sorted(got)}
    if not (expect <= got and ({"first_point_dropped", "not_a_subsequence"} & got)):
        raise vlib.ToolError("binding self-test: corrupted trace not rejected (expected %s, got %s)" % (expect, got))
    ctx.log("binding self-test: corrupted records rejected with %s" % sorted(got))


def replay(ctx):
    case = ctx.replay["case"]
    trace = ctx.path("geometry.ndjson")
    ctx.harness("vh-misc", ["geometry", "--out", trace, "--only-case", json.dumps(case)])
    res = ctx.tlc_trace(SPEC_T, CFG_T, trace)
    finish(ctx, trace, res["bad"], res["stats"], 0, 0)
