"""C07 - Tensor iterators yield exactly the logical elements in order.

spec -> impl: TLC enumerates every history of the Iterators contract (next / next_back / nth /
split_at keep-left|right / fold / rev / parallel drain); the harness replays them on every
rten-tensor iterator kind over marker tensors of every layout class; Trace_Iter judges each call."""
import vlib


def run(ctx):
    ctx.build(["vh-tensor"])
    # 1. contract model-checked (chunked variant) + behaviour generation (unit variant)
    ctx.tlc_mc("tensor/MC_Iterators", "tensor/MC_Iterators_chunk.cfg", workers=4, timeout=600)
    # implementation-shaped transcription of OffsetsBase (cursor positions with carry, next_back via
    # offset_from_linear_index, step_by/nth, split_at) against the contract, all shapes of rank <= 3, sizes <= 3
    ctx.tlc_mc("tensor/IteratorsImpl", "tensor/IteratorsImpl.cfg", workers=4, timeout=900,
               label="OffsetsBase transcription yields the contract's elements for every shape and history of 4 operations")
    hist_all = ctx.path("hist_all.jsonl")
    gen_cfg = "tensor/MC_Iterators_gen3.cfg" if ctx.quick else "tensor/MC_Iterators_gen4.cfg"
    nh = ctx.tlc_generate("tensor/MC_Iterators", gen_cfg, hist_all, workers=4, timeout=1200)
    if ctx.replay:
        return replay(ctx)
    hist = ctx.path("hist.jsonl")
    if ctx.quick:
        n = vlib.sample_lines(hist_all, hist, 2500, ctx.seed)
        per, nrand = 30, 40
    else:
        n = vlib.sample_lines(hist_all, hist, 60000, ctx.seed)
        per, nrand = 25, 300
    trace = ctx.path("iter.ndjson")
    ctx.harness("vh-tensor", ["iter", "--hist", hist, "--out", trace, "--per-hist", per, "--random-layouts", nrand])
    res = ctx.tlc_trace("tensor/Trace_Iter", "tensor/Trace_Iter.cfg", trace, timeout=3000)
    finish(ctx, trace, res, nh, n)


def finish(ctx, trace, res, nh, n):
    keyf = ["kind", "shape", "strides", "base", "dim", "c", "n", "hist"]

    def nontrivial(r):
        ops = [o["op"] for o in r["hist"]]
        units = 1
        for s in r["shape"]:
            units *= s
        return units >= 2 and any(o in ("back", "split", "nth", "rdrain", "par") for o in ops)

    total, distinct, dnt, samples = vlib.scan_cases(trace, keyf, nontrivial)
    ctx.cov["evaluations"] = total
    ctx.cov["distinct_nontrivial"] = dnt
    ctx.cov["traces_validated_against_impl"] = total
    ctx.cov["histories_generated_by_tlc"] = nh
    ctx.cov["histories_replayed"] = n
    ctx.add_samples(samples)
    ctx.judge(res["bad"], "vh-tensor iter", "tensor/Trace_Iter", "tensor/Trace_Iter.cfg",
              case_lookup=lambda rec: rec.get("case"), badtotal=res["badtotal"])
    ctx.finish(
        rule="cases = (TLC-generated history) x (iterator kind, params, layout); distinct by (kind, layout, params, history); "
             "non-trivial = layout has >= 2 elements and the history uses next_back/nth/split/rev/parallel",
        assumptions=["shape()/strides() of the views are as constructed (C09 covers layout operations)",
                     "items of sub-view iterators are read by explicit indexing (TensorView::get)"],
        exhaustive=False)


def replay(ctx):
    rp = ctx.replay
    case = rp["case"]
    import json
    hist = ctx.path("hist.jsonl")
    with open(hist, "w") as f:
        f.write(json.dumps(case["hist"]) + "\n")
    trace = ctx.path("iter.ndjson")
    ctx.harness("vh-tensor", ["iter", "--hist", hist, "--out", trace, "--only-case", json.dumps(case)])
    res = ctx.tlc_trace("tensor/Trace_Iter", "tensor/Trace_Iter.cfg", trace)
    finish(ctx, trace, res, 1, 1)
