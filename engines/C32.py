"""C32 - The generator feeds the model a consistent token history.

Generator.tla is the contract as a state machine (pending tokens, next position, cache version,
prev_tokens, history variables); TLC model-checks its invariants (positions contiguous, every
pending token submitted exactly once, cache hand-off, prev = first occurrences of everything
submitted/produced) and the implementation-shaped GeneratorImpl.tla against the same invariants.
spec -> impl: TLC emits every call history up to the bound for a model with and without KV cache;
vh-gen replays each on a real rten_generate::Generator over a recording mock Model;
Trace_Generator.tla (which *is* the contract machine driven by the trace) judges every call."""
import json
import os
import sys

import vlib

sys.path.insert(0, os.path.dirname(os.path.abspath(__file__)))
import _genlib  # noqa: E402

SPEC = "gen/Trace_Generator"
CFG = "gen/Trace_Generator.cfg"


def run(ctx):
    ctx.build(["vh-gen"])
    if ctx.replay:
        return replay(ctx)
    hist_all = ctx.path("hist_all.jsonl")
    # 1. the contract machine and its invariants (+ in the quick tier the same run emits the histories)
    if ctx.quick:
        nh = _genlib.mc_and_generate(ctx, "gen/MC_Generator", "gen/MC_Generator_mcgen5.cfg", hist_all, workers=4,
                                     timeout=1500, label="contract invariants + every history of <= 5 calls")
    else:
        ctx.tlc_mc("gen/MC_Generator", "gen/MC_Generator_mc7.cfg", workers=4, timeout=1500, label="contract invariants")
        nh = ctx.tlc_generate("gen/MC_Generator", "gen/MC_Generator_gen6.cfg", hist_all, workers=4, timeout=1500)
    # 2. implementation-shaped transcription against the contract invariants
    ctx.tlc_mc("gen/GeneratorImpl", "gen/GeneratorImpl_ok.cfg", workers=4, timeout=900,
               label="GeneratorImpl: positions / exactly-once / cache hand-off")
    info, out = ctx.tlc_mc("gen/GeneratorImpl", "gen/GeneratorImpl_prev.cfg", workers=4, timeout=900,
                           expect_ok=False, label="GeneratorImpl: PrevIsHistory (candidate search)")
    candidate = "Invariant PrevIsHistory is violated" in out
    if not candidate and not info["ok"]:
        raise vlib.ToolError("GeneratorImpl_prev.cfg neither completed nor produced a counterexample")
    ctx.cov["impl_candidate_prev"] = candidate
    ctx.cov["notes"].append(
        "design-level: TLC %s a counterexample to PrevIsHistory in GeneratorImpl (a candidate only; "
        "the verdict comes from the replayed trace)" % ("found" if candidate else "did not find"))
    # 3. every history up to the bound (+ thorough: a seeded sample one call deeper)
    lines = open(hist_all).read().splitlines()
    nsampled = 0
    if not ctx.quick:
        deep = ctx.path("hist_deep.jsonl")
        nd = ctx.tlc_generate("gen/MC_Generator", "gen/MC_Generator_gen7.cfg", deep, workers=4, timeout=1800)
        sample = ctx.path("hist_deep_sample.jsonl")
        nsampled = vlib.sample_lines(deep, sample, 60000, ctx.seed)
        lines += open(sample).read().splitlines()
        ctx.cov["histories_7_calls_generated"] = nd
        os.remove(deep)
    # 4. replay on the real Generator, in chunks validated in parallel
    per = (len(lines) + 3) // 4 if ctx.quick else 12000
    chunks = [lines[i:i + per] for i in range(0, len(lines), per)]
    traces = []
    for i, ch in enumerate(chunks):
        hp = ctx.path("hist_%03d.jsonl" % i)
        with open(hp, "w") as f:
            f.write("\n".join(ch) + "\n")
        tp = ctx.path("gen_%03d.ndjson" % i)
        ctx.harness("vh-gen", ["generator", "--hist", hp, "--out", tp, "--variants", 2, "--salt", i])
        traces.append(tp)
    res = _genlib.parallel_trace(ctx, SPEC, CFG, traces, workers=4)
    if not ctx.quick:
        self_test(ctx, traces[0])
    finish(ctx, traces, res, nh, len(lines), nsampled)


def self_test(ctx, trace):
    """Corrupt single recorded fields of real trace records; Trace_Generator must object."""
    recs = _genlib.split_cases(trace, 1500)

    def kv_run(r):
        return r["ev"] == "op" and r["runs"] and r["runs"][0]["kv_in"] and r["runs"][0]["pos"] and r["runs"][0]["pos"][0] > 0

    def on_first(pred, edit):
        def fn(rs):
            for r in rs:
                if pred(r):
                    edit(r)
                    return True
            return False
        return fn

    def bump_pos(r):
        r["runs"][0]["pos"][0] += 1

    def stale_ver(r):
        r["runs"][0]["kv_in"][2]["vers"] = [0]

    def lose_row(r):
        r["runs"][0]["kv_in"][1]["toks"][0] = r["runs"][0]["kv_in"][1]["toks"][0][1:]

    def drop_id(r):
        r["runs"][0]["ids"] = r["runs"][0]["ids"][1:]

    def drop_prev(r):
        r["prev"] = r["prev"][:-1]

    def first_next(r):
        return r["ev"] == "op" and r["op"] == "next" and r["outcome"] == "ok" and len(r["prev"]) == len(r["runs"][0]["ids"]) + 1

    def drop_event(rs):
        for i, r in enumerate(rs):
            if kv_run(r):
                del rs[i]
                return True
        return False

    _genlib.self_test(ctx, SPEC, CFG, recs, [
        ("position_ids[0] + 1", on_first(kv_run, bump_pos), {"check": "positions"}),
        ("stale version tag in a KV-cache input", on_first(kv_run, stale_ver), {"check": "kv_cache"}),
        ("a row missing from a KV-cache input", on_first(kv_run, lose_row), {"check": "kv_cache"}),
        ("first pending token not submitted", on_first(kv_run, drop_id), {"check": "submitted_ids"}),
        ("sampled token missing from prev_tokens", on_first(first_next, drop_prev), {"check": "prev_tokens", "cls": "initial_prompt"}),
        ("one op event dropped", drop_event, {}),   # any new failed predicate
    ])


def nontrivial(r):
    """>= 2 model runs, and the pending prompt is changed (non-empty append / clear) after the first run."""
    ops = r["ops"]
    runs = [i for i, o in enumerate(ops) if o["op"] in ("next", "process")]
    if len(runs) < 2:
        return False
    return any((o["op"] == "append" and o["toks"]) or o["op"] == "clear" for o in ops[runs[0] + 1:])


def finish(ctx, traces, res, nh, nreplayed, nsampled):
    keyf = ["kv", "variant", "ops"]
    total = dnt = 0
    seen = set()
    for t in traces:
        with open(t) as f:
            for line in f:
                if '"ev":"case"' not in line:
                    continue
                r = json.loads(line)
                total += 1
                key = json.dumps([r.get(k) for k in keyf], sort_keys=True)
                if key in seen:
                    continue
                seen.add(key)
                if nontrivial(r):
                    dnt += 1
                    if len(ctx.cov["samples"]) < 4 and dnt % 997 == 1:
                        ctx.add_samples([{k: r.get(k) for k in keyf}])
    ctx.cov["evaluations"] = total
    ctx.cov["distinct_nontrivial"] = dnt
    ctx.cov["traces_validated_against_impl"] = total
    ctx.cov["histories_generated_by_tlc"] = nh
    ctx.cov["histories_replayed"] = nreplayed
    ctx.cov["histories_7_calls_sampled"] = nsampled
    stats, bad, badtotal = res["stats"], res["bad"], res["badtotal"]
    ctx.cov["trace_stats"] = stats
    if stats.get("accessor_mismatch", 0):
        ctx.drift("prompt()/kv_cache_len()/attention-mask length disagree with the contract state in %d call(s) "
                  "(not part of the property statement)" % stats["accessor_mismatch"])
    ctx.judge(bad, "vh-gen generator", SPEC, CFG, case_lookup=lambda rec: rec.get("case"), badtotal=badtotal)
    ctx.finish(
        rule="cases = (TLC-generated call history, model with/without KV cache) x (mock variant: cache layout "
             "[b,s,c] / [b,h,s,c], in-place or fresh cache tensors, kv_cache_capacity); distinct by (kv, variant, history); "
             "non-trivial = >= 2 model runs and a non-empty append_prompt or a clear_prompt after the first run",
        assumptions=[
            "the mock implements rten_generate::model::Model faithfully (logits [1, n, vocab], present.* = past ++ new rows)",
            "batch size 1 (the only one Generator supports); prompts of 0..2 tokens; with_prompt only as the first call",
            "next() with nothing pending is outside the contract (the real code panics slicing empty logits); such a call ends the history unjudged",
            "sampling is the default ArgMax over one-hot logits; encoder (cross-attention) caches and constant/varying extra inputs are not exercised",
        ],
        exhaustive=True,
        explanation="exhaustive = every history of the stated call alphabet up to the bound (5 calls quick, 6 calls thorough) "
                    "for both model kinds was replayed; 7-call histories are sampled in the thorough tier")


def replay(ctx):
    case = ctx.replay["case"]
    trace = ctx.path("gen_replay.ndjson")
    ctx.harness("vh-gen", ["generator", "--out", trace, "--only-case", json.dumps(case)])
    res = ctx.tlc_trace(SPEC, CFG, trace)
    finish(ctx, [trace], _genlib.merge([res]), 1, 1, 0)
