"""C32 - The generator feeds the model a consistent token history.

Generator.tla is the contract as a state machine over every public call that touches the token
history, the pending input or the KV cache: with_prompt (builder style, callable at any time: it sets
the pending list), append_prompt, clear_prompt, process_prompt, next.  State: pending tokens, next
position (= number of tokens in the KV cache = kv_cache_len()), cache version, prev_tokens, and
history variables for everything the model received.  TLC model-checks its invariants (positions
contiguous and equal to the cache length, every token instance submitted exactly once / still
pending / dropped, cache hand-off, prev_tokens = first occurrences of everything submitted or
produced).  GeneratorImpl.tla transcribes generate_impl with the offset rule behind a constant:
"add_fed" (`input_offset += input_ids.len()`, the code) satisfies the invariants, "prev_len"
(`input_offset = prev_tokens.len()`) violates PositionsContiguous as soon as a sampled token is
dropped unfed -- shown by TLC at design level.
spec -> impl: TLC emits every call history up to the bound for a model with and without KV cache;
vh-gen replays each on a real rten_generate::Generator over a recording mock Model (in lexicographic
order, sharing already-judged prefixes); Trace_Generator.tla (which *is* the contract machine driven
by the trace) judges every call: tokens fed, position_ids / cache_position / varying-input range,
contents and version of every cache tensor handed in, prev_tokens(), kv_cache_len()."""
import json
import os
import sys
from concurrent.futures import ThreadPoolExecutor

import vlib

sys.path.insert(0, os.path.dirname(os.path.abspath(__file__)))
import _genlib  # noqa: E402

SPEC = "gen/Trace_Generator"
CFG = "gen/Trace_Generator.cfg"
MC = "gen/MC_Generator"


def run(ctx):
    ctx.build(["vh-gen"])
    if ctx.replay:
        return replay(ctx)
    # 1. the contract machine: invariants + every history up to the bound
    files = []
    if ctx.quick:
        spaces = [("mcgen4", "every history of <= 4 calls, prompt lengths 0/1/2"),
                  ("mcgen5s", "every history of <= 5 calls, prompt lengths 0/1")]
    else:
        ctx.tlc_mc(MC, "gen/MC_Generator_mc6.cfg", workers=4, timeout=2400, label="contract invariants, <= 6 calls, lengths 0/1/2")
        ctx.tlc_mc(MC, "gen/MC_Generator_mc5.cfg", workers=4, timeout=2400, label="contract invariants, two sampled-token values")
        spaces = [("mcgen5", "every history of <= 5 calls, prompt lengths 0/1/2"),
                  ("gen6s", "every history of <= 6 calls, prompt lengths 0/1")]
    nh = 0
    for name, label in spaces:
        out = ctx.path("hist_%s.jsonl" % name)
        nh += _genlib.mc_and_generate(ctx, MC, "gen/MC_Generator_%s.cfg" % name, out, workers=4, timeout=2400,
                                      label="contract invariants + " + label)
        files.append(out)
    # 2. implementation-shaped transcription: the code's offset rule and the tempting rewrite
    ctx.tlc_mc("gen/GeneratorImpl", "gen/GeneratorImpl_add_fed.cfg", workers=4, timeout=900,
               label="GeneratorImpl, input_offset += input_ids.len(): all contract invariants")
    info, out = ctx.tlc_mc("gen/GeneratorImpl", "gen/GeneratorImpl_prev_len.cfg", workers=4, timeout=900,
                           expect_ok=False, label="GeneratorImpl, input_offset = prev_tokens.len(): counterexample expected")
    if "Invariant PositionsContiguous is violated" not in out:
        raise vlib.ToolError("GeneratorImpl with OffsetRule = prev_len did not violate PositionsContiguous "
                             "(the design-level demonstration is broken)")
    ctx.cov["notes"].append("design-level: TLC finds the PositionsContiguous counterexample for the offset rule "
                            "`input_offset = prev_tokens.len()` (drop a sampled token with clear_prompt/with_prompt, then run the model)")
    # 3. the histories, deduplicated and sorted so that neighbours share prefixes
    seen = set()
    hs = []
    for f in files:
        for line in open(f):
            line = line.strip()
            if line and line not in seen:
                seen.add(line)
                hs.append(json.loads(line))
    hs.sort(key=lambda h: (h["kv"], [(o["op"], o["toks"]) for o in h["ops"]]))
    # 4. replay on the real Generator (chunks in parallel), then validate the traces in parallel
    nchunks = 4 if ctx.quick else 12
    per = (len(hs) + nchunks - 1) // nchunks
    jobs = []
    for i in range(nchunks):
        part = hs[i * per:(i + 1) * per]
        if not part:
            continue
        hp = ctx.path("hist_%03d.jsonl" % i)
        with open(hp, "w") as f:
            for h in part:
                f.write(json.dumps(h) + "\n")
        jobs.append((hp, ctx.path("gen_%03d.ndjson" % i), i))

    def harness(job):
        hp, tp, i = job
        ctx.harness("vh-gen", ["generator", "--hist", hp, "--out", tp, "--variants", 1 if ctx.quick else 2, "--salt", i])
        return tp

    with ThreadPoolExecutor(max_workers=4) as ex:
        traces = list(ex.map(harness, jobs))
    res = _genlib.parallel_trace(ctx, SPEC, CFG, traces, workers=4)
    if not ctx.quick:
        self_test(ctx, traces[-1])
    finish(ctx, traces, res, nh, len(hs))


def self_test(ctx, trace):
    """Corrupt single recorded fields of real trace records; Trace_Generator must object."""
    recs = _genlib.split_cases(trace, 2500)

    def kv_run(r):
        return r["ev"] == "op" and r["runs"] and r["runs"][0]["kv_in"]["lens"] and r["runs"][0]["pos"] and r["runs"][0]["pos"][0] > 0

    def on_first(pred, edit):
        def fn(rs):
            for r in rs:
                if pred(r):
                    edit(r)
                    return True
            return False
        return fn

    def bump_pos(r):
        r["runs"][0]["pos"][0] += 1

    def bump_cpos(r):
        r["runs"][0]["cpos"] = [x + 1 for x in r["runs"][0]["cpos"]]

    def stale_ver(r):
        r["runs"][0]["kv_in"]["vers"] = [0]

    def lose_row(r):
        r["runs"][0]["kv_in"]["rows"].append(r["runs"][0]["kv_in"]["rows"][0][1:])

    def short_cache(r):
        r["runs"][0]["kv_in"]["lens"][1] -= 1

    def drop_id(r):
        r["runs"][0]["ids"] = r["runs"][0]["ids"][1:]

    def drop_prev(r):
        r["prev"] = r["prev"][:-1]

    def wrong_kvlen(r):
        r["kvlen"] += 1

    def first_next(r):
        return r["ev"] == "op" and r["op"] == "next" and r["outcome"] == "ok" and len(r["prev"]) == len(r["runs"][0]["ids"]) + 1

    _genlib.self_test(ctx, SPEC, CFG, recs, [
        ("position_ids[0] + 1", on_first(kv_run, bump_pos), {"check": "positions"}),
        ("cache_position shifted by one", on_first(kv_run, bump_cpos), {"check": "positions"}),
        ("stale version tag in a KV-cache input", on_first(kv_run, stale_ver), {"check": "kv_cache"}),
        ("a KV-cache head missing its first row", on_first(kv_run, lose_row), {"check": "kv_cache"}),
        ("one KV-cache input one row short", on_first(kv_run, short_cache), {"check": "kv_cache"}),
        ("first pending token not submitted", on_first(kv_run, drop_id), {"check": "submitted_ids"}),
        ("sampled token missing from prev_tokens", on_first(first_next, drop_prev), {"check": "prev_tokens", "cls": "initial_prompt"}),
        ("kv_cache_len() off by one", on_first(kv_run, wrong_kvlen), {"check": "kv_cache_len"}),
    ])


def nontrivial(r):
    """>= 2 model runs, and the pending prompt is changed (non-empty append / with_prompt, or clear) after the first run."""
    ops = r["ops"]
    runs = [i for i, o in enumerate(ops) if o["op"] in ("next", "process")]
    if len(runs) < 2:
        return False
    return any((o["op"] in ("append", "with_prompt") and o["toks"]) or o["op"] == "clear" for o in ops[runs[0] + 1:])


def finish(ctx, traces, res, nh, nreplayed):
    keyf = ["kv", "variant", "ops"]
    total = dnt = drops = 0
    seen = set()
    for t in traces:
        with open(t) as f:
            for line in f:
                if '"ev":"case"' not in line:
                    continue
                r = json.loads(line)
                total += 1
                key = json.dumps([r.get(k) for k in keyf], sort_keys=True)
                if key in seen:
                    continue
                seen.add(key)
                if nontrivial(r):
                    dnt += 1
                    names = [o["op"] for o in r["ops"]]
                    if any(a == "next" and b in ("clear", "with_prompt") for a, b in zip(names, names[1:])):
                        drops += 1
                    if len(ctx.cov["samples"]) < 4 and dnt % 997 == 1:
                        ctx.add_samples([{k: r.get(k) for k in keyf}])
    ctx.cov["evaluations"] = total
    ctx.cov["distinct_nontrivial"] = dnt
    ctx.cov["traces_validated_against_impl"] = total
    ctx.cov["histories_generated_by_tlc"] = nh
    ctx.cov["histories_replayed"] = nreplayed
    ctx.cov["cases_dropping_a_sampled_token_then_running"] = drops
    stats, bad, badtotal = res["stats"], res["bad"], res["badtotal"]
    ctx.cov["trace_stats"] = stats
    if stats.get("accessor_mismatch", 0):
        ctx.drift("prompt() / attention-mask length / constant input disagree with the contract state in %d call(s) "
                  "(not part of the property statement)" % stats["accessor_mismatch"])
    ctx.judge(bad, "vh-gen generator", SPEC, CFG, case_lookup=lambda rec: rec.get("case"), badtotal=badtotal)
    ctx.finish(
        rule="cases = (TLC-generated call history over {with_prompt, append_prompt, clear_prompt, process_prompt, next}, "
             "model with/without KV cache) x (mock variant: cache layout [b,s,c] / [b,h,s,c], in-place or fresh cache "
             "tensors, kv_cache_capacity, extra varying + constant inputs); distinct by (kv, variant, history); "
             "non-trivial = >= 2 model runs and a non-empty append_prompt/with_prompt or a clear_prompt after the first run; "
             "calls shared with the previous case of the same pass are judged once (calls_judged in trace_stats)",
        assumptions=[
            "the mock implements rten_generate::model::Model faithfully (logits [1, n, vocab], present.* = past ++ new rows, "
            "partial_run returns the constant inputs as leaves)",
            "batch size 1 (the only one Generator supports)",
            "with_prompt 'sets' the prompt: called mid-history it replaces whatever is pending (like clear_prompt + append_prompt)",
            "next() with nothing pending is outside the contract (the real code panics slicing empty logits); such a call ends the history unjudged",
            "sampling is the default ArgMax over one-hot logits; encoder (cross-attention) caches are not exercised; "
            "with_sampler / with_logits_filter / with_run_options do not touch the token history and are not varied",
        ],
        exhaustive=True,
        explanation="exhaustive = every history over the call alphabet for both model kinds: <= 4 calls with prompt lengths "
                    "0/1/2 and <= 5 calls with lengths 0/1 (quick); <= 5 calls with lengths 0/1/2 and <= 6 calls with lengths 0/1 (thorough)")


def replay(ctx):
    case = dict(ctx.replay["case"])
    case["keep"] = 0
    trace = ctx.path("gen_replay.ndjson")
    ctx.harness("vh-gen", ["generator", "--out", trace, "--only-case", json.dumps(case)])
    res = ctx.tlc_trace(SPEC, CFG, trace)
    finish(ctx, [trace], _genlib.merge([res]), 1, 1)
