"""C31 - Logit filters implement their contracts for all inputs.

Filters.tla states the contracts of TopK / TopP / Chain as pure predicates over score vectors whose
scores are positions in the IEEE total order (and exact numerators on the 1/1024 grid for top-P).
MC_Filters model-checks the contracts themselves over small input spaces (they accept the textbook
result and reject near misses) and emits every case of those spaces; vh-gen applies the real
filters to them (dense and sparse) and to seeded inputs of every length 0..35 and beyond (NaN, inf,
+-0, ties, K > n, K = 0, chains); Trace_Filters evaluates the contract of every stage and the
chain = composition clause, and treats a panic as a failed outcome."""
import json
import os
import sys

import vlib

sys.path.insert(0, os.path.dirname(os.path.abspath(__file__)))
import _genlib  # noqa: E402

SPEC = "gen/Trace_Filters"
CFG = "gen/Trace_Filters.cfg"


def run(ctx):
    ctx.build(["vh-gen"])
    if ctx.replay:
        return replay(ctx)
    spaces = ["quick"] if ctx.quick else ["topk4", "topk5", "topp5", "chain4"]
    vec_files = []
    nvec = 0
    for sp in spaces:
        out = ctx.path("vec_%s.jsonl" % sp)
        nvec += _genlib.mc_and_generate(ctx, "gen/MC_Filters", "gen/MC_Filters_%s.cfg" % sp, out, workers=4,
                                        timeout=2400, label="contract sanity + case enumeration: " + sp)
        vec_files.append(out)
    lines = []
    for f in vec_files:
        lines += open(f).read().splitlines()
    nseeded = 4000 if ctx.quick else 60000
    nchunks = 4 if ctx.quick else 16
    per = (len(lines) + nchunks - 1) // nchunks
    traces = []
    for i in range(nchunks):
        vp = ctx.path("vec_%03d.jsonl" % i)
        with open(vp, "w") as f:
            f.write("\n".join(lines[i * per:(i + 1) * per]) + "\n")
        tp = ctx.path("filt_%03d.ndjson" % i)
        ctx.harness("vh-gen", ["filters", "--vectors", vp, "--seeded", nseeded // nchunks, "--salt", i, "--out", tp])
        traces.append(tp)
    res = _genlib.parallel_trace(ctx, SPEC, CFG, traces, workers=4)
    if not ctx.quick:
        # a dedicated seeded trace (all kinds of cases) is corrupted for the binding self-test
        stp = ctx.path("filt_selftest.ndjson")
        ctx.harness("vh-gen", ["filters", "--seeded", 1500, "--salt", 99, "--out", stp])
        self_test(ctx, stp)
    finish(ctx, traces, res, nvec)


NAN_HI, NAN_LO = 2139095040, -2139095041


def norm(k):
    return 0 if k == -1 else k


def nontrivial(r):
    keys = r["v"]["key"]
    return len(keys) >= 2 and len({norm(k) for k in keys}) >= 2


def finish(ctx, traces, res, nvec):
    total = dnt = 0
    seen = set()
    by_src = {}
    lens = set()
    for t in traces:
        with open(t) as f:
            for line in f:
                if '"ev":"case"' not in line:
                    continue
                r = json.loads(line)
                total += 1
                by_src[r["src"]] = by_src.get(r["src"], 0) + 1
                lens.add(len(r["v"]["key"]))
                key = json.dumps([r["dense"], r["v"]["ids"], r["v"]["key"], r["chain"]], sort_keys=True)
                if key in seen:
                    continue
                seen.add(key)
                if nontrivial(r):
                    dnt += 1
                    if dnt % 1999 == 1:
                        ctx.add_samples([{"dense": r["dense"], "v": r["v"], "chain": r["chain"]}])
    ctx.cov["evaluations"] = total
    ctx.cov["distinct_nontrivial"] = dnt
    ctx.cov["traces_validated_against_impl"] = total
    ctx.cov["cases_by_source"] = by_src
    ctx.cov["vectors_generated_by_tlc"] = nvec
    ctx.cov["input_lengths_covered"] = sorted(lens)[:80]
    ctx.cov["trace_stats"] = res["stats"]
    if res["stats"].get("zero_sign_relaxed", 0):
        ctx.cov["notes"].append(
            "%d top-K results are accepted only because -0.0 and +0.0 count as the same score (the update test uses "
            "`>`, the sort total_cmp); by the strict total order they would not be the K largest"
            % res["stats"]["zero_sign_relaxed"])
    ctx.judge(res["bad"], "vh-gen filters", SPEC, CFG, case_lookup=lambda rec: rec.get("case"), badtotal=res["badtotal"])
    ctx.finish(
        rule="cases = (input vector, filter chain, dense|sparse); TLC enumerates all vectors over a 9-value alphabet "
             "(-NaN,-inf,-1,-0,+0,0.5,1,+inf,+NaN) up to length 3 (quick) / 4 (thorough; a 5-value alphabet up to 5) with every "
             "K in 0..n+2, all grid distributions with every threshold, and two-stage chains; seeded cases add lengths "
             "0..35 and up to ~200, arbitrary bit patterns, ties, K in {0..n+2, 1000, 10^6}, arbitrary p, normalize(true), "
             "chains of 2-4 filters incl. temperature and a token-id filter; distinct by (dense, ids, keys, chain); "
             "non-trivial = at least two entries with different scores",
        assumptions=[
            "-0.0 and +0.0 count as equal scores (weakest reading of 'ties handled by total order')",
            "top-P is judged exactly only for sub-distributions on the 1/1024 grid with normalize(false) (all f32 sums exact); "
            "other inputs and normalize(true) are judged for: no panic, non-empty, result is a top set of the input",
            "top-P output is judged as a set (the statement does not require it to be sorted); zero-probability entries may be kept",
            "Temperature and token-id filters are judged for panics only (the statement gives them no contract)",
            "ids of sparse inputs are distinct",
        ],
        exhaustive=True,
        explanation="exhaustive over the stated small alphabets/lengths (every vector, K, threshold, two-stage chain); "
                    "the seeded part is a sample")


def self_test(ctx, trace):
    recs = _genlib.split_cases(trace, 6000)

    def walk(rs):
        """yield (index, case, input-of-stage, filter) for every stage record"""
        case = cur = None
        for i, r in enumerate(rs):
            if r["ev"] == "case":
                case, cur = r, r["v"]
            elif r["ev"] == "stage":
                yield i, case, cur, case["chain"][r["i"] - 1]
                if r["outcome"] == "ok":
                    cur = r["v"]

    def no_nan(v):
        return all(NAN_LO <= k <= NAN_HI for k in v["key"])

    def swap_topk(rs):
        for i, case, cur, f in walk(rs):
            o = rs[i]["v"]
            if f["f"] == "top_k" and rs[i]["outcome"] == "ok" and no_nan(cur) and len(o["key"]) >= 2 \
                    and norm(o["key"][0]) != norm(o["key"][-1]):
                o["ids"][0], o["ids"][-1] = o["ids"][-1], o["ids"][0]
                o["key"][0], o["key"][-1] = o["key"][-1], o["key"][0]
                return True
        return False

    def shrink_topk(rs):
        for i, case, cur, f in walk(rs):
            o = rs[i]["v"]
            if f["f"] == "top_k" and rs[i]["outcome"] == "ok" and no_nan(cur) and len(o["key"]) >= 2:
                o["ids"].pop()
                o["key"].pop()
                if o["num"]:
                    o["num"].pop()
                return True
        return False

    def shrink_topp(rs):
        for i, case, cur, f in walk(rs):
            o = rs[i]["v"]
            if f["f"] == "top_p" and not f["norm"] and cur["exact"] and sum(cur["num"]) <= 1024 and 0 < f["pnum"] \
                    and rs[i]["outcome"] == "ok" and len(o["key"]) >= 2 and o["num"] and min(o["num"]) > 0:
                for fld in ("ids", "key", "num"):
                    o[fld].pop()
                return True
        return False

    def fake_panic(rs):
        for i, case, cur, f in walk(rs):
            if f["f"] == "top_p" and rs[i]["outcome"] == "ok":
                rs[i]["outcome"] = "panic"
                return True
        return False

    def break_chain(rs):
        for r in rs:
            if r["ev"] == "chain" and r["outcome"] == "ok" and len(r["v"]["ids"]) >= 1:
                r["v"]["ids"][0] += 1000
                return True
        return False

    _genlib.self_test(ctx, SPEC, CFG, recs, [
        ("top-K output with first and last entry swapped", swap_topk, {"f": "top_k", "check": "order", "cls": "plain"}),
        ("top-K output one entry short", shrink_topk, {"f": "top_k", "check": "contract", "cls": "plain"}),
        ("top-P output one entry short", shrink_topp, {"f": "top_p", "check": "contract", "cls": "exact"}),
        ("a top-P stage reported as panic", fake_panic, {"f": "top_p", "check": "panic"}),
        ("chain output with a changed id", break_chain, {"f": "chain", "check": "composition"}),
    ])


def replay(ctx):
    case = ctx.replay["case"]
    trace = ctx.path("filt_replay.ndjson")
    ctx.harness("vh-gen", ["filters", "--out", trace, "--only-case", json.dumps(case)])
    res = ctx.tlc_trace(SPEC, CFG, trace)
    finish(ctx, [trace], _genlib.merge([res]), 0)
