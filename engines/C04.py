"""C04 - Partial evaluation composes with full evaluation.

PartialEval.tla: contract (Computable / ReturnedOk: the returned leaves are computed only by deterministic
operators from the given inputs, and together with the remaining inputs they suffice) and the transcription
of create_plan(allow_missing) + prune_plan, model-checked on EVERY SSA graph of the family x every input
subset x output request. Every case is replayed on a real Graph of mixer operators (some flagged
non-deterministic): full run, partial_run, composed run; TLC validates the records (Trace_PartialEval.tla).
Real ONNX random generators are additionally loaded with optimisation on/off: runs must differ (not folded)."""
import vlib


def add_random_cases(path, seed, count):
    """Random members of PartialEval.tla's family with 3..4 operators (JSON format of MC_PartialEval's Emit)."""
    import json, random
    rnd = random.Random(seed * 104729 + 3)
    with open(path, "a") as f:
        for _ in range(count):
            nops = rnd.choice([3, 3, 4])
            ops = []
            for i in range(1, nops + 1):
                ins = [rnd.randrange(1, 2 + i) for _ in range(rnd.choice([1, 2]))]
                caps = [rnd.randrange(1, 2 + i)] if rnd.random() < 0.3 else []
                ops.append({"ins": ins, "caps": caps, "nondet": rnd.random() < 0.25})
            nv = 2 + nops
            r = rnd.random()
            v = rnd.randrange(1, nv)
            outs = [nv] if r < 0.4 else [nv, v] if r < 0.7 else [v, nv]
            S = [x for x in (1, 2) if rnd.random() < 0.5]
            f.write(json.dumps({"ni": 2, "ops": ops, "outs": outs, "S": S}) + "\n")
    return count


def run(ctx):
    ctx.build(["vh-graph"])
    cases_all = ctx.path("cases_all.jsonl")
    # (the 3-operator family has 24.9M members: both tiers model-check the complete 2-operator family; the
    # thorough tier replays ALL of it on the real code and adds random cases with 3..4 operators)
    cfg = "graph/MC_PartialEval2.cfg"
    n_all = ctx.tlc_generate("graph/MC_PartialEval", cfg, cases_all, workers=6, timeout=3000, heap="12g")
    lines = sorted(set(open(cases_all).read().splitlines()))
    open(cases_all, "w").write("\n".join(lines) + "\n")
    cases = ctx.path("cases.jsonl")
    if ctx.replay:
        import json
        with open(cases, "w") as f:
            f.write(json.dumps(ctx.replay["record"]["g"]) + "\n")
        n = 1
    else:
        n = vlib.sample_lines(cases_all, cases, 12000 if ctx.quick else 10**9, ctx.seed)
        n += add_random_cases(cases, ctx.seed, 500 if ctx.quick else 60000)
    t1, t2 = ctx.path("partial.ndjson"), ctx.path("random.ndjson")
    ctx.harness("vh-graph", ["partial", "--cases", cases, "--out", t1])
    ctx.harness("vh-graph", ["partial-random", "--out", t2])
    import shutil
    with open(t1, "a") as f:
        f.write(open(t2).read())
    res = ctx.tlc_trace("graph/Trace_PartialEval", "graph/Trace_PartialEval.cfg", t1, timeout=3000)
    ctx.judge(res["bad"], "vh-graph partial", "graph/Trace_PartialEval", "graph/Trace_PartialEval.cfg")
    total, distinct, dnt, samples = vlib.scan_cases(t1, ["g"], lambda r: 0 < len(r["g"]["S"]) < r["g"]["ni"])
    ctx.cov.update({"evaluations": total, "distinct_nontrivial": dnt, "traces_validated_against_impl": total,
                    "cases_enumerated_by_tlc": len(lines), "proper_subset_with_leaves": res["stats"].get("proper_subset_with_leaves", 0)})
    ctx.add_samples(samples)
    ctx.finish(rule="case = (SSA graph, nondeterminism flags, requested outputs, input subset S) enumerated by TLC; distinct by that tuple; non-trivial = S is a proper non-empty subset of the inputs",
               assumptions=["synthetic mixer operators; the non-deterministic operator counts its own executions", "random generators of the ONNX set are checked only for not being frozen (3 runs must not all be equal)"],
               exhaustive=False)
