"""C25 - Model runs are deterministic and leave model and inputs unchanged.

Same machinery as C02 (Executor.tla invariants BorrowedUntouched / OutputsIntact model-checked on every graph
of the family; real graphs of mixer operators where a constant or a borrowed input feeds an in-place capable
operator, is used twice, or is requested directly as an output). Every graph is run as a history of 9 runs
with varying inputs, ownership, output sets and strategies on the same graph object; TLC checks after every
run that borrowed inputs and constants still hold their data and that the same request gives the same result."""
import sys, os
sys.path.insert(0, os.path.dirname(__file__))
import _execlib


def run(ctx):
    _execlib.run_exec(ctx, "C25")
    ctx.finish(rule="case = one TLC-generated graph with a history of 9 runs; evaluations = runs; distinct_nontrivial = distinct graphs with >= 1 in-place capable operator",
               assumptions=["integer data (bit-identical = equal integers); multi-threaded float rounding is outside this check",
                            "constants are read back through the rten::verif hook after every run"],
               exhaustive=not ctx.quick)
