"""C25 - Model runs are deterministic and leave model and inputs unchanged.

Same machinery as C02 (Executor.tla invariants BorrowedUntouched / OutputsIntact model-checked on every graph
of the family; real graphs of mixer operators where a constant or a borrowed input feeds an in-place capable
operator, is used twice, or is requested directly as an output). Every graph is run as a history of 9 runs
with varying inputs, ownership, output sets and strategies on the same graph object; TLC checks after every
run that borrowed inputs and constants still hold their data and that the same request gives the same result."""
import sys, os
sys.path.insert(0, os.path.dirname(__file__))
import _execlib


def run(ctx):
    _execlib.run_exec(ctx, "C25")
    # real operators with an in-place path (Slice with mixed steps, Clip with omitted bounds, broadcast
    # binary operators, layout operators, ...) under owned/borrowed inputs, extra requested outputs, pools
    _execlib.run_realops(ctx, "C25")
    # a run must not affect later runs: sequential histories of requests on one loaded model (TLC-generated
    # class histories incl. "the previous request plus a value for an intermediate node"); every result must
    # equal the result of the same call made alone on a fresh model and the naive evaluation in TLA+
    import _reqlib
    h = ctx.path("class_hist.jsonl")
    nh = ctx.tlc_generate("graph/RequestClasses", "graph/RequestClasses2.cfg" if ctx.quick else "graph/RequestClasses3.cfg", h, workers=4)
    t = ctx.path("req_hist.ndjson")
    ctx.harness("vh-graph", ["requests", "--mode", "seq", "--hist", h, "--out", t])
    stats = _reqlib.validate(ctx, [t], "C25", "vh-graph requests")
    ctx.cov["request_histories"] = nh
    ctx.cov["evaluations"] += stats["calls"]
    ctx.finish(rule="case = one TLC-generated graph with a history of 9 runs; evaluations = runs; distinct_nontrivial = distinct graphs with >= 1 in-place capable operator",
               assumptions=["integer data (bit-identical = equal integers); multi-threaded float rounding is outside this check",
                            "constants are read back through the rten::verif hook after every run"],
               exhaustive=not ctx.quick)
