"""C18 - SIMD instruction sets agree and stay within slice bounds.

Specs (specs/simd):
  SimdInt.tla    lane semantics of every integer / bit-level primitive of rten-simd (scalar definition)
  SimdFloat.tla  float primitives that are discrete functions of the bit pattern (sign ops, ordered compares,
                 min/max, round-ties-even, f32<->i32, f16<->f32) on bit patterns
  MC_SimdSem     model-checks the two semantics modules against independent algebraic characterisations
  SimdMap.tla    chunk / masked-tail schedule of simd_map, simd_apply, Iter::fold*, IterPad and the SliceWriter
                 kernels, transcribed from the code; TLC checks InBounds / ExactlyOnce / MaskedTail / CallCount
  Trace_Prims    impl -> spec: every primitive evaluated via SimdOp::eval on generic, AVX2 and AVX-512; TLC
                 recomputes every integer lane from SimdInt / SimdFloat and judges float arithmetic across ISAs
  Trace_Bounds   impl -> spec: slice helpers and every public rten-vecmath op on PROT_NONE guard-page buffers in
                 child processes, lengths 0..4v+3: abort = out-of-slice access; partition, padding, results,
                 untouched memory and ISA relations evaluated in TLA+.
"""
import concurrent.futures as cf
import json
import os
import threading
import time

import vlib

PRIM_PARTS = ["i8", "u8", "i16", "u16", "i32", "vec", "float", "cvt"]
MEM_PARTS = ["f32", "i32", "i16", "u16", "i8", "u8", "f16"]
VM_PARTS = ["unary", "slice", "reduce", "convert"]

_lock = threading.Lock()
# several TLC processes run side by side: keep each JVM's GC small (same options as vlib otherwise)
JENV = {"JAVA_TOOL_OPTIONS": "-Xss1g -Dtlc2.tool.queue.IStateQueue=StateDeque -XX:ParallelGCThreads=2"}


def _stagger():
    # vlib names TLC metadirs by module/cfg/millisecond: never start two in the same instant
    with _lock:
        time.sleep(0.35)


def run(ctx):
    ctx.build(["vh-simd"])
    if ctx.replay:
        return replay(ctx)
    results = []  # (kind, trace path, result of tlc_trace)
    jobs = []

    def mc(spec, cfg, workers, label):
        _stagger()
        ctx.tlc_mc(spec, cfg, workers=workers, timeout=3000, label=label)

    def prims(part):
        trace = ctx.path("prims_%s.ndjson" % part)
        ctx.harness("vh-simd", ["prims", "--part", part, "--out", trace])
        _stagger()
        res = ctx.tlc_trace("simd/Trace_Prims", "simd/Trace_Prims.cfg", trace, timeout=3000, heap="6g", env=JENV)
        results.append(("prims", trace, res))

    def bounds(fam, part):
        trace = ctx.path("bounds_%s_%s.ndjson" % (fam, part))
        ctx.harness("vh-simd", ["bounds", "--fam", fam, "--part", part, "--out", trace], timeout=3000)
        _stagger()
        res = ctx.tlc_trace("simd/Trace_Bounds", "simd/Trace_Bounds.cfg", trace, timeout=3000, heap="6g", env=JENV)
        results.append((fam, trace, res))

    jobs.append((mc, ("simd/SimdMap", "simd/MC_SimdMap.cfg", 2, "slice schedule: InBounds/ExactlyOnce/MaskedTail")))
    jobs.append((mc, ("simd/MC_SimdSem", "simd/MC_SimdSem_quick.cfg" if ctx.quick else "simd/MC_SimdSem.cfg", 2,
                      "reference semantics vs algebraic characterisations")))
    for p in PRIM_PARTS:
        jobs.append((prims, (p,)))
    if ctx.quick:
        jobs.append((bounds, ("mem", "all")))
        jobs.append((bounds, ("vm", "all")))
    else:
        for p in MEM_PARTS:
            jobs.append((bounds, ("mem", p)))
        for p in VM_PARTS:
            jobs.append((bounds, ("vm", p)))
    # longest jobs first
    order = {"i8": 0, "u8": 0, "float": 1, "mem": 0, "vm": 1}
    jobs.sort(key=lambda j: order.get(j[1][0], 2))
    nthreads = 6
    with cf.ThreadPoolExecutor(max_workers=nthreads) as ex:
        futs = [ex.submit(f, *a) for f, a in jobs]
        errs = []
        for fu in futs:
            try:
                fu.result()
            except vlib.ToolError as e:
                errs.append(e)
        if errs:
            raise errs[0]
    # thread-safe recount of the accumulated TLC numbers
    ctx.cov["states"] = sum(r["distinct_states"] for r in ctx.cov["mc_runs"]) + sum(r["states"] for r in ctx.cov["trace_runs"])
    ctx.cov["transitions"] = sum(r["states_generated"] for r in ctx.cov["mc_runs"]) + sum(r["states"] for r in ctx.cov["trace_runs"])
    finish(ctx, results)


def _case_of(rec):
    return rec.get("case") if isinstance(rec, dict) and "case" in rec else rec


def finish(ctx, results):
    lanes = skipped = mem_cases = vm_runs = 0
    bad = []
    badtotal = 0
    distinct = set()
    nontrivial = 0
    samples = []
    for kind, trace, res in results:
        st = res["stats"]
        lanes += st.get("lanes_judged", 0)
        skipped += st.get("lanes_outside_documented_domain", 0)
        mem_cases += st.get("mem_cases", 0)
        vm_runs += st.get("vm_runs", 0)
        bad += res["bad"]
        badtotal += res["badtotal"]
        # measured distinct cases: events of the traces, by their identifying fields + operand hash
        with open(trace) as f:
            for line in f:
                r = json.loads(line)
                ev = r.get("ev")
                if ev in ("lane", "flane"):
                    key = (ev, r["ty"], r["op"], r["k"], hash(str(r["a"][:8]) + str(r["b"][:8]) + str(len(r["a"]))))
                    nt = True
                elif ev in ("vec", "cvt"):
                    key = (ev, r.get("ty", ""), r["op"], r.get("k", 0), r["isa"], hash(str(r["a"])))
                    nt = True
                elif ev == "mem":
                    key = (ev, r["fn"], r["ty"], r["isa"], r["n"], r["place"])
                    nt = r["n"] > 0 and r["v"] > 0 and r["n"] % max(r["v"], 1) != 0  # has a partial vector
                elif ev == "vm":
                    key = (ev, r["op"], r["variant"], r["dclass"], r["n"], r["place"])
                    nt = r["n"] > 0
                else:
                    continue
                if key in distinct:
                    continue
                distinct.add(key)
                if nt:
                    nontrivial += 1
                    if len(samples) < 4 and ev in ("mem", "vm", "vec"):
                        samples.append({k: r[k] for k in r if k in ("ev", "fn", "op", "ty", "isa", "isas", "n", "place", "variant", "dclass", "k")})
    ctx.cov["evaluations"] = lanes + mem_cases + vm_runs
    ctx.cov["lanes_judged"] = lanes
    ctx.cov["lanes_outside_documented_domain"] = skipped
    ctx.cov["mem_cases"] = mem_cases
    ctx.cov["vecmath_runs"] = vm_runs
    ctx.cov["distinct_nontrivial"] = nontrivial
    ctx.cov["traces_validated_against_impl"] = len(distinct)
    ctx.add_samples(samples)
    ctx.cov["notes"] += [
        "float lanes outside the documented domain (NaN / signed-zero operands of min/max/clamp, NaN or |x| >= 2^31 in "
        "to_int_*) are counted in lanes_outside_documented_domain and not judged (lib.rs: 'some operations may have "
        "different behaviors in edge cases on different platforms')",
        "mul_add / mul_sub_from and every vecmath op built on them: generic (unfused) is not compared with AVX2/AVX-512 "
        "(fused); ops.rs documents 'may use one or two roundings'. AVX2 = AVX-512 is required",
        "reductions (Sum*, Softmax, LogSoftmax): association depends on the vector width (documented in sum.rs); judged for "
        "bounds, and against the exact integer result on small-integer data",
        "Sin/Cos fall back to scalar evaluation for a whole vector when it contains |x| >= 48000, so a lane's result depends "
        "on its neighbours (vector width); cross-ISA equality is judged only for slices without such elements",
    ]
    ctx.judge(bad, "vh-simd", "simd/Trace_Prims|simd/Trace_Bounds", "simd/Trace_Prims.cfg|simd/Trace_Bounds.cfg",
              case_lookup=_case_of, badtotal=badtotal)
    ctx.finish(
        rule="evaluations = lanes judged by Trace_Prims (every lane of every ISA) + slice cases (fn, type, ISA, length, "
             "placement) + vecmath runs (op, variant, data class, length, placement, ISA); distinct = events by identifying "
             "fields and operands; non-trivial = primitive events, slice cases with a partial (masked / scalar) tail, "
             "vecmath cases with n > 0",
        assumptions=[
            "f32 arithmetic (add/sub/mul/div/fma) is judged across ISAs with the generic ISA as the scalar definition: "
            "correctly-rounded IEEE arithmetic is not evaluated in TLA+",
            "an out-of-slice access is observed only if it crosses into the adjacent guard page (slices are flush "
            "against it) or overwrites sentinel bytes; stray READS into the slack on the non-flush side are invisible "
            "(each case is therefore run in both placements in the thorough tier)",
            "the harness' MapOn wrapper restates rten-simd's private SimdMapOp (simd_map + SimdUnaryOp::eval)",
            "release build with overflow-checks off (the repo's release profile): generic integer +,-,* wrap",
            "numeric accuracy against libm is out of scope (C19 not claimed)",
        ],
        exhaustive=False,
        explanation="quick tier: boundary + seeded rows of the 8-bit pair table, boundary slice lengths. Thorough tier: "
        "exhaustive over all 8-bit operand pairs for every binary integer op, all 8/16-bit values for unary ops, all f16 "
        "bit patterns, and all slice lengths 0..4v+3 in both placements; 16/32-bit pairs and f32 values are boundary "
        "grids plus seeded samples")


def replay(ctx):
    rp = ctx.replay
    rec = rp["record"]
    case = rec.get("case") if isinstance(rec, dict) else None
    if case and case.get("fam") in ("mem", "vm"):
        trace = ctx.path("replay_bounds.ndjson")
        ctx.harness("vh-simd", ["bounds", "--fam", case["fam"], "--out", trace, "--only-case", json.dumps(case)])
        res = ctx.tlc_trace("simd/Trace_Bounds", "simd/Trace_Bounds.cfg", trace)
        return finish(ctx, [(case["fam"], trace, res)])
    trace = ctx.path("replay_prims.ndjson")
    ctx.harness("vh-simd", ["prims", "--out", trace, "--replay", json.dumps(rec)])
    res = ctx.tlc_trace("simd/Trace_Prims", "simd/Trace_Prims.cfg", trace)
    finish(ctx, [("prims", trace, res)])
