"""C22 - Concurrent use of one model gives sequential results.

PlanCache.tla (threads, the single cached plan, GetPlan as one critical section, runs outside the lock)
is model-checked for all interleavings (PlanFitsRequest, NoStarvation). Real threads then call run /
partial_run on one shared Model with same, reordered, overlapping, different and invalid id sets; the
plan-cache events (hook H3, emitted while the mutex is held) and every call's result are validated by
TLC (Trace_Requests.tla): the plan handed out is a correct plan for the requester's own request, each
result equals the result of the same call made alone on a private model and the naive evaluation in
TLA+, nothing panics, nothing blocks."""
import sys, os
sys.path.insert(0, os.path.dirname(__file__))
import vlib
import _reqlib


def run(ctx):
    ctx.build(["vh-graph"])
    if ctx.replay:
        raise vlib.ToolError("C22 violations come from concurrent traces; re-run the tier with seed %s" % ctx.replay.get("seed"))
    ctx.tlc_mc("graph/MC_PlanCache", "graph/MC_PlanCache.cfg" if ctx.quick else "graph/MC_PlanCache_thorough.cfg",
               workers=6, timeout=3000)
    traces = []
    plan = [(40, 0, 25, "yes"), (20, 8, 30, "no")] if ctx.quick else [(1500, 0, 30, "yes"), (500, 8, 40, "no"), (500, 2, 60, "yes")]
    for i, (cases, threads, calls, invalid) in enumerate(plan):
        t = ctx.path("conc%d.ndjson" % i)
        ctx.harness("vh-graph", ["requests", "--mode", "conc", "--cases", cases, "--threads", threads, "--calls", calls,
                                 "--invalid", invalid, "--out", t], env={"VERIF_SEED": str(ctx.seed + i)})
        traces.append(t)
    stats = _reqlib.validate(ctx, traces, "C22", "vh-graph requests")
    total, distinct, samples = _reqlib.scan(traces)
    ncases = sum(p[0] for p in plan)
    ctx.cov.update({"evaluations": total, "distinct_nontrivial": distinct, "traces_validated_against_impl": ncases,
                    "plan_cache_hits": stats["cache_hits"], "plan_cache_misses": stats["cache_misses"]})
    ctx.add_samples(samples)
    ctx.finish(rule="case = one shared model used by 2-8 threads; evaluations = calls; distinct by (api, class, input ids/dtypes/shapes, output ids)",
               assumptions=["hook H3 emits inside the cache critical section; results are compared with the same call made alone on a fresh model instance",
                            "interleavings of the real threads are not controlled (free-running); the model checking of PlanCache.tla covers all interleavings of the design"],
               exhaustive=False)
