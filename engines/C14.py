"""C14 - Operator results do not depend on input memory layout.

impl -> spec: `vh-ops relational layout` materialises the logical inputs of every catalogue operator
(operator objects decoded by the real ONNX loader) as contiguous tensors, permuted views, stepped
slices of larger poisoned buffers and broadcast (stride-0) views - all 4^k combinations for k <= 2
tensor inputs, pairs plus random assignments beyond - and runs Operator::run on each; it also runs
Transpose->{MatMul,Concat,Expand,Slice,Split} models optimised (Transpose fused into TransformInputs:
the inner operator sees a permuted view) and unoptimised.  A "threshold" sub-family (catalogue3.rs, 65 entries)
repeats the layout cross product for every operator that sits on a blocked / vectorised kernel (MatMul, Gemm,
Einsum, MatMulInteger, MatMulNBits, Conv/ConvTranspose/ConvInteger, attention, LSTM/GRU, pooling, reductions,
softmax, normalisations, elementwise SIMD kernels, Transpose/Concat/Expand/Gather copies, quantisation) with the
kernel-facing dimensions drawn from {1,2,15,16,17,31,32,33,63,64,65,96,130} (N >= 64 favoured for the GEMM
right-hand side so that several full column panels exist), the other dimensions tiny and integer-valued data, so
that layout-dependent packing / tiling paths are crossed and judged bit-exactly against the contiguous run.
Its "thr/bat/" part (37 entries) gives every operator with batch semantics (MatMul, Einsum, MatMulInteger,
MatMulNBits, Attention, Conv, pooling, rank-4 elementwise binary ops, Where, reductions, Softmax, normalisations,
Transpose, Concat, Gather, Slice) operands of rank >= 4 whose content is constant along a proper non-empty subset
of the batch dims (each subset; all sizes > 1), which the broadcast layout class turns into PARTIAL broadcast
views: stride 0 on some batch dims, distinct matrices / rows along the others.  TLC validates the trace with
Trace_Relational.tla (OpContracts.LayoutIndependent on shape, dtype and bits against the
all-contiguous run)."""
import collections
import json

import vlib

SPEC = "ops/Trace_Relational"
CFG = "ops/Trace_Relational.cfg"


def scan(trace):
    """Operators x variants actually exercised (counts measured from the trace)."""
    ops = collections.OrderedDict()
    seen = set()
    total = distinct = nontrivial = 0
    samples = []
    cur = None
    with open(trace) as f:
        for line in f:
            r = json.loads(line)
            if r["ev"] == "case":
                cur = r
                o = ops.setdefault(r["key"], {"op": r["op"], "cases": 0, "dtypes": {}, "classes": {}, "runs": {}, "normal_ok": 0})
                o["cases"] += 1
                o["dtypes"][r["dt"]] = o["dtypes"].get(r["dt"], 0) + 1
                o["classes"][r["cls"]] = o["classes"].get(r["cls"], 0) + 1
                total += 1
                key = json.dumps([r["key"], r["inputs"]], sort_keys=True)
                cur["_new"] = key not in seen
                seen.add(key)
                if cur["_new"]:
                    distinct += 1
                continue
            o = ops[cur["key"]]
            if r["mode"] == "base":
                if r["outcome"] == "ok":
                    o["normal_ok"] += 1
                    # non-trivial: the contiguous run succeeded with a non-empty output
                    if cur["_new"] and any(len(v["bits"]) or len(v["items"]) for v in r["outputs"]):
                        nontrivial += 1
                        if len(samples) < 3:
                            samples.append({"key": cur["key"], "dt": cur["dt"], "cls": cur["cls"], "inputs": cur["inputs"]})
                continue
            o["runs"]["layout_runs"] = o["runs"].get("layout_runs", 0) + 1
            for c in r["laycls"].split(","):
                if c not in ("contig", "none", "seq"):
                    o["runs"][c] = o["runs"].get(c, 0) + 1
    return ops, total, distinct, nontrivial, samples


def merge(dst, src):
    for k, o in src.items():
        d = dst.setdefault(k, {"op": o["op"], "cases": 0, "dtypes": {}, "classes": {}, "runs": {}, "normal_ok": 0})
        d["cases"] += o["cases"]
        d["normal_ok"] += o["normal_ok"]
        for f in ("dtypes", "classes", "runs"):
            for a, b in o[f].items():
                d[f][a] = d[f].get(a, 0) + b


def run(ctx):
    ctx.level = "exploration"
    ctx.build(["vh-ops"])
    if ctx.replay:
        batches = [("replay", ["--only-case", json.dumps(ctx.replay["record"]["case"])])]
    elif ctx.quick:
        batches = [("q", ["--cases", 14, "--model-rounds", 30]),
                   # threshold sub-family: dims around / beyond the kernels' block and vector sizes
                   ("thr", ["--only", "thr/", "--thr", "--cases", 4, "--model-rounds", 0])]
    else:
        # several moderately sized traces (the trace spec loads a whole trace into memory)
        batches = [("t%d" % i, ["--cases", 16, "--model-rounds", 60, "--exhaustive3"]) for i in range(12)]
        # tensors above the 32K-element chunk size of the parallel elementwise kernels
        batches.append(("big", ["--only", "big/", "--big", "--cases", 1]))
        batches += [("thr%d" % i, ["--only", "thr/", "--thr", "--cases", 12, "--model-rounds", 0, "--exhaustive3"]) for i in range(4)]
    st = collections.Counter()
    ops, total, distinct, nontrivial, samples, bad = collections.OrderedDict(), 0, 0, 0, [], []
    for i, (tag, args) in enumerate(batches):
        trace = ctx.path("layout_%s.ndjson" % tag)
        ctx.harness("vh-ops", ["relational", "layout", "--out", trace] + args, timeout=3000,
                    env={"VERIF_SEED": str(ctx.seed + 1000003 * i)})
        res = ctx.tlc_trace(SPEC, CFG, trace, timeout=3000, heap="12g")
        st.update(res["stats"])
        bad += res["bad"]
        o, t, d, n, s = scan(trace)
        merge(ops, o)
        total, distinct, nontrivial = total + t, distinct + d, nontrivial + n
        samples += s
    if st.get("err_became_ok", 0):
        ctx.drift("%d layout run(s) succeeded although the all-contiguous run of the same case failed" % st["err_became_ok"])
    ctx.cov["evaluations"] = st.get("runs", 0)
    ctx.cov["distinct_nontrivial"] = nontrivial
    ctx.cov["traces_validated_against_impl"] = total
    ctx.cov["cases"] = total
    ctx.cov["distinct_cases"] = distinct
    ctx.cov["comparisons_against_successful_contiguous_run"] = st.get("compared", 0)
    ctx.cov["contiguous_run_failed_nothing_required"] = st.get("ref_failed", 0)
    ctx.cov["bits_differ_within_rounding_bound"] = st.get("rounding_only", 0)
    thr = {k: o for k, o in ops.items() if k.startswith("thr/")}
    ctx.cov["partial_broadcast_entries"] = len([k for k in thr if k.startswith("thr/bat/")])
    ctx.cov["partial_broadcast_view_runs"] = sum(o["runs"].get("broadcast", 0) for k, o in thr.items() if k.startswith("thr/bat/"))
    ctx.cov["threshold_family_entries"] = len(thr)
    ctx.cov["threshold_family_cases"] = sum(o["cases"] for o in thr.values())
    ctx.cov["threshold_family_layout_runs"] = sum(o["runs"].get("layout_runs", 0) for o in thr.values())
    ctx.cov["operators_exercised"] = len(ops)
    ctx.cov["operators"] = ops
    ctx.add_samples(samples)
    ctx.judge(bad, "vh-ops relational layout", SPEC, CFG)
    ctx.finish(
        rule="case = (catalogue operator variant, element type, seeded inputs) or (Transpose->X model, inputs); every case runs "
             "Operator::run on all-contiguous inputs, then on each assignment of {contig, permuted, stepped, broadcast} to the tensor "
             "inputs (4^k for k<=2; a fully varied pair + 4 random assignments for k>2; assignments a tensor cannot take are skipped: "
             "broadcast needs content constant along a dim, permuted needs >= 2 non-unit dims); distinct by (operator variant, inputs); "
             "non-trivial = contiguous run succeeded with a non-empty output",
        assumptions=["the catalogue generators produce inputs on which Operator::run succeeds (measured: normal_ok per operator)",
                     "layouts are those expressible by rten-tensor views (non-negative strides); sequence inputs keep contiguous items",
                     "threshold sub-family: block sizes are not read from the kernels; the dimension set brackets NR in {16,32}, MR <= 14 and 4/8/16-lane vectors",
                     "float data avoids NaN inputs (NaN payload propagation is not part of the property)",
                     "operators whose result is a rten-gemm sum of products are compared bit-exactly on integer-valued data and "
                     "within the rounding bound of OpContracts.tla otherwise (DESIGN 6.2)",
                     "thread pool: 4 threads for both sides of every comparison"],
        exhaustive=False)
