"""C39 - CTC decoding returns distinct, correctly scored hypotheses.

spec -> impl: TLC model-checks the exact CTC semantics (Ctc.tla: brute-force sum over all alignments
= forward recursion, total mass, collapse) on EVERY matrix of probabilities n/4 with T <= 3 (quick) /
T <= 4..5 (thorough) and emits the matrices; the harness runs the real CtcDecoder (decode_greedy,
decode_beam, decode_beam_nbest) on every matrix with T <= 2, a seeded sample of the others - the
first ones with EVERY beam width 1..B+2 (B = number of distinct label sequences), the others with a
narrow, a middle and a nothing-pruned width - and on seeded random larger matrices (T <= 6, C <= 5,
D in {8, 16}), logging every hypothesis with its score as the integer round(exp(score) * D^T * 2^10).

Hard histories (spec -> impl): CtcBeam.tla models the prefix beam search itself as a state machine
(beam = set of [label prefix, positions, p_blank, p_nonblank], exact scaled integers, explicit
pruning).  TLC checks that this implementation-shaped search refines the contract (distinct
prefixes, score <= exact forward probability, equality when nothing can be pruned), and then
SEARCHES the input matrices - row by row over an alphabet of 6 (quick) / 10 (thorough) exact
distributions n/8 over blank + 2 labels, T <= 6, beam widths 2..4 - for runs that contain the merge
of two states whose label prefixes agree but whose recorded positions differ: a prefix was pruned
while its extension and its parent survived, was re-created later and is extended again.  Those
matrices (546 quick / 2658 thorough) are replayed on the real decoder at the beam width of the
model run (and, for every 25th, at a width where nothing is pruned).

Trace_Ctc.tla judges every call (K1-K5): pairwise distinct label sequences, finite scores, score <=
exact probability, equality when nothing is pruned."""
import json
import os
import re
import threading
import time

import vlib

SPEC_T, CFG_T = "misc/Trace_Ctc", "misc/Trace_Ctc.cfg"


def mc_generate(ctx, spec, cfg, outfile, workers=4, timeout=1500, label=None):
    """One TLC run that both model-checks the invariants of `spec` and emits REPLAY vectors."""
    rc, out, dt = ctx._tlc(spec, cfg, workers, timeout, heap="8g")
    ok = rc == 0 and "Model checking completed. No error has been found." in out
    n = 0
    pat = re.compile(r'<<"REPLAY", %s>>' % vlib._STR)
    with open(outfile, "w") as f:
        for m in pat.finditer(out):
            f.write(vlib.tla_unescape(m.group(1)).replace("\n", " ") + "\n")
            n += 1
    gen, distinct = ctx._stats(out)
    ctx.cov["mc_runs"].append({"spec": spec, "cfg": cfg, "role": "model checking + generator", "label": label,
                               "behaviours": n, "states_generated": gen, "distinct_states": distinct,
                               "ok": ok, "wall_s": round(dt, 1)})
    ctx.cov["states"] += distinct
    ctx.cov["transitions"] += gen
    ctx.log("TLC %s/%s: %d distinct states, %d vectors, ok=%s, %.1fs" % (spec, os.path.basename(cfg), distinct, n, ok, dt))
    if not ok or n == 0:
        print(out[-5000:])
        raise vlib.ToolError("TLC run of %s with %s did not complete cleanly (rc=%s)" % (spec, cfg, rc))
    return n


def split_trace(path, nparts, case_ev):
    lines = open(path).read().splitlines()
    if nparts <= 1 or len(lines) < 4000:
        return [path]
    target = (len(lines) + nparts - 1) // nparts
    parts, cur = [], []
    for ln in lines:
        if len(cur) >= target and '"ev":"%s"' % case_ev in ln:
            parts.append(cur)
            cur = []
        cur.append(ln)
    if cur:
        parts.append(cur)
    out = []
    for i, p in enumerate(parts):
        fn = "%s.part%d" % (path, i)
        with open(fn, "w") as f:
            f.write("\n".join(p) + "\n")
        out.append(fn)
    return out


def validate_parallel(ctx, traces, timeout=3000):
    results, errors = [None] * len(traces), []

    def work(i, t):
        try:
            results[i] = ctx.tlc_trace(SPEC_T, CFG_T, t, timeout=timeout)
        except BaseException as ex:
            errors.append(ex)

    threads = []
    for i, t in enumerate(traces):
        th = threading.Thread(target=work, args=(i, t))
        th.start()
        threads.append(th)
        time.sleep(0.3)
    for th in threads:
        th.join()
    if errors:
        raise errors[0]
    merged, stats = {}, {}
    for r in results:
        for k, v in r["stats"].items():
            stats[k] = stats.get(k, 0) + v
        for b in r["bad"]:
            key = json.dumps(b["sig"], sort_keys=True)
            if key in merged:
                merged[key]["count"] += b.get("count", 1)
            else:
                merged[key] = b
    return list(merged.values()), stats


def run(ctx):
    ctx.level = "exploration"   # the conformance side samples the input space (see manifest level_note)
    ctx.build(["vh-misc"])
    if ctx.replay:
        return replay(ctx)
    q = ctx.quick
    # beside the enumeration of small matrices: the beam-search model, model-checked against the contract and used
    # by TLC to construct inputs whose run prunes, re-creates and re-extends a prefix
    hz_all = ctx.path("hazards_all.jsonl")
    side = {}

    def beam_model():
        try:
            ctx.tlc_mc("misc/MC_CtcBeam", "misc/MC_CtcBeam_mc.cfg", workers=2, timeout=1200,
                       label="beam search refines the contract")
            side["nhz"] = mc_generate(ctx, "misc/MC_CtcBeam", "misc/MC_CtcBeam_genq.cfg" if q else "misc/MC_CtcBeam_gent.cfg",
                                      hz_all, workers=4 if q else 6, timeout=3600,
                                      label="inputs whose beam-search run merges states with inconsistent positions")
        except BaseException as ex:
            side["err"] = ex

    th = threading.Thread(target=beam_model)
    th.start()
    mats_all = ctx.path("mats_all.jsonl")
    nm = mc_generate(ctx, "misc/MC_Ctc", "misc/MC_Ctc_quick.cfg" if q else "misc/MC_Ctc_thorough.cfg", mats_all,
                     workers=4 if q else 6, timeout=3600, label="all matrices of probabilities n/4")
    # every enumerated matrix with T <= 2 is replayed (exhaustive for the smallest sizes), the others are sampled
    mats, rest = ctx.path("mats.jsonl"), ctx.path("mats_rest.jsonl")
    small = []
    with open(mats_all) as f, open(rest, "w") as fr:
        for line in f:
            if json.loads(line)["T"] <= 2:
                small.append(line)
            else:
                fr.write(line)
    sampled = ctx.path("mats_sampled.jsonl")
    nsel = vlib.sample_lines(rest, sampled, 90 if q else 4000, ctx.seed) + len(small)
    with open(mats, "w") as f:
        f.write(open(sampled).read())      # sampled ones first: they get the all-widths treatment
        f.writelines(small)
    ctx.cov["matrices_T_le_2_replayed_exhaustively"] = len(small)
    trace = ctx.path("ctc.ndjson")
    ctx.harness("vh-misc", ["ctc", "--mats", mats, "--all-widths", 12 if q else 150,
                            "--random", 50 if q else 1500, "--out", trace])
    th.join()
    if "err" in side:
        raise side["err"]
    # the hazard matrices: at the width of the model run; every 25th also at the nothing-pruned width (control)
    hz = ctx.path("hazards.jsonl")
    with open(hz_all) as f, open(hz, "w") as g:
        for i, line in enumerate(f):
            m = json.loads(line)
            if i % 25 != 0:
                m["beams"] = m["beams"][:1]
            g.write(json.dumps(m) + "\n")
    htrace = ctx.path("ctc_hazards.ndjson")
    ctx.harness("vh-misc", ["ctc", "--mats", hz, "--out", htrace])
    ctx.cov["hazard_matrices_generated_by_tlc"] = side["nhz"]
    if not q:
        selftest(ctx, trace)
    bad, stats = validate_parallel(ctx, split_trace(trace, 1 if q else 6, "ccase") + split_trace(htrace, 1 if q else 3, "ccase"))
    finish(ctx, [trace, htrace], bad, stats, nm, nsel)


def finish(ctx, traces, bad, stats, nm, nsel):
    def nontrivial(r):
        return r["T"] >= 2 and r["C"] >= 2

    total = dnt = 0
    samples = []
    for trace in traces:
        t, _, d, smp = vlib.scan_cases(trace, ["api", "T", "C", "D", "w", "beam", "nbest", "layout"],
                                       nontrivial, ev="ccase", sample_n=2)
        total += t
        dnt += d
        samples += smp
    ctx.cov["evaluations"] = total
    ctx.cov["distinct_nontrivial"] = dnt
    ctx.cov["traces_validated_against_impl"] = total
    ctx.cov["matrices_generated_by_tlc"] = nm
    ctx.cov["matrices_replayed"] = nsel
    ctx.cov["spec_stats"] = stats
    ctx.add_samples(samples)
    ctx.judge(bad, "vh-misc ctc", SPEC_T, CFG_T, case_lookup=lambda rec: rec.get("case"))
    ctx.finish(
        rule="case = (decoder API, matrix of numerators over D, beam width, n-best, layout); matrices = seeded sample of the "
             "TLC-enumerated matrices (rows summing to D = 4) + seeded random larger ones; beam widths: all of 1..B+2 for "
             "the first matrices, else narrow / middle / nothing-pruned; distinct by all listed fields; non-trivial = T >= 2 "
             "and at least one non-blank label",
        assumptions=["log-probabilities are ln(n/D) rounded to f32; scores are compared as round(exp(score) * D^T * 2^10) "
                     "with relative slack 2^-10 plus one unit",
                     "a hypothesis whose label sequence has exact probability 0 may carry the score -inf (reading K3)",
                     "for C^T > 300 alignments the exact probability is computed by the forward recursion, which TLC "
                     "checks against the brute-force definition on every enumerated matrix"],
        exhaustive=False)


def selftest(ctx, trace):
    """Binding self-test: corrupt hypotheses in the recorded trace; Trace_Ctc must flag each."""
    out, want = [], set()
    prev = None
    with open(trace) as f:
        for line in f:
            rec = json.loads(line)
            if prev is not None and prev["ev"] == "ccase" and rec["ev"] == "cret" and rec["outcome"] == "ok":
                c, r = prev, json.loads(json.dumps(rec))
                hs = r["hyps"]
                if c["api"] == "greedy" and c["T"] >= 2 and hs[0]["labels"] and "g" not in want:
                    r1 = json.loads(json.dumps(r)); r1["hyps"][0]["pos"][0] += 1          # wrong position
                    r2 = json.loads(json.dumps(r)); r2["hyps"][0]["score"] = hs[0]["score"] // 2 + 7   # wrong score
                    out += [c, r1, c, r2]; want.add("g")
                elif c["api"] == "beam_nbest" and c["beam"] <= 2 and len(hs) >= 2 and c["T"] >= 2 and "b" not in want \
                        and all(h["cls"] == "fin" and h["score"] > 0 for h in hs):
                    r1 = json.loads(json.dumps(r)); r1["hyps"][1]["labels"] = hs[0]["labels"]; r1["hyps"][1]["pos"] = hs[0]["pos"]
                    r2 = json.loads(json.dumps(r)); r2["hyps"][0]["cls"] = "neginf"; r2["hyps"][0]["score"] = 0
                    r3 = json.loads(json.dumps(r)); r3["hyps"][0]["score"] = (4 ** c["T"]) * 1024 * 2 if c["D"] == 4 else hs[0]["score"] * 64
                    out += [c, r1, c, r2, c, r3]; want.add("b")
            prev = rec
            if len(want) == 2:
                break
    if len(want) < 2:
        raise vlib.ToolError("self-test could not find records to corrupt (%s)" % want)
    st = ctx.path("selftest.ndjson")
    with open(st, "w") as f:
        f.write("\n".join(json.dumps(x) for x in out) + "\n")
    res = ctx.tlc_trace(SPEC_T, CFG_T, st)
    got = {b["sig"]["pred"] for b in res["bad"]}
    expect = {"not_collapsed_argmax_path", "score_not_sum_of_logprobs", "duplicate_label_sequences", "score_not_finite",
              "score_exceeds_exact_probability"}
    ctx.cov["binding_self_test"] = {"corrupted_records": len(out) // 2, "expected": sorted(expect), "flagged": sorted(got)}
    if not expect <= got:
        raise vlib.ToolError("binding self-test: corrupted trace not rejected (expected %s, got %s)" % (expect, got))
    ctx.log("binding self-test: corrupted records rejected with %s" % sorted(got))


def replay(ctx):
    case = ctx.replay["case"]
    trace = ctx.path("ctc.ndjson")
    c = dict(case)
    ctx.harness("vh-misc", ["ctc", "--out", trace, "--only-case", json.dumps(c)])
    res = ctx.tlc_trace(SPEC_T, CFG_T, trace)
    finish(ctx, [trace], res["bad"], res["stats"], 0, 0)
