"""C05 - Loading untrusted model bytes is safe, bounded and well-formed.

1. MC_Loader: the implementation-shaped acceptance predicates (Header::from_buf, Layout::min_data_len /
   try_from_data, the .rten storage-offset path) are checked exhaustively at word size 2^4 (quick) / 2^6
   (thorough) against the contract: the header predicate is an invariant; for the shape/data predicates TLC
   prints every accepted (shape, data length) whose unbounded product differs as a CANDIDATE.
2. vh-load fuzz: valid ONNX and .rten models x structured mutations (every dtype and data source, dims 2^31,
   2^32, 2^63-1, negative, products wrapping to 0 or to the data length, the scaled TLC candidates, shape/data
   mismatches, header fields and data offsets at every boundary, consistently inflated chains of nested protobuf
   lengths: one field declares 2^31..2^64-1 bytes and all its ancestors agree) + seeded flips/truncations, loaded through
   Model::load / load_file / load_mmap in child processes (CPU-time + address-space limits); every constant
   of a loaded model is reported through Model::verif_graph(); bounded smoke run.
   Both builds of the harness run the corpus: cargo profile `release` (overflow checks off) and `checked`
   (release + overflow-checks + debug-assertions; all structured mutants, half of the seeded flips); the build
   profile is part of every signature.
3. Trace_Loader.tla decides: outcome in {model, error}; every constant's unbounded dims product fits in
   memory and equals the reported element count and the backing storage length."""
import json
import os

import vlib

SPEC = "load/Trace_Loader"
CFG = "load/Trace_Loader.cfg"


def run(ctx):
    ctx.level = "exploration"
    ctx.build(["vh-load"])
    ctx.build(["vh-load"], profile="checked")
    trace = ctx.path("fuzz.ndjson")
    if ctx.replay:
        case = ctx.replay["case"]
        ctx.harness("vh-load", ["fuzz", "--out", trace, "--only-case", json.dumps(case)],
                    profile=case.get("build", "release"))
        res = ctx.tlc_trace(SPEC, CFG, trace, timeout=1800)
        return finish(ctx, [(trace, res)])
    cands = ctx.path("cands.jsonl")
    cfg = "load/MC_Loader.cfg" if ctx.quick else "load/MC_Loader_t.cfg"
    ncand = ctx.tlc_generate("load/MC_Loader", cfg, cands, workers=4, timeout=3000)
    ctx.cov["candidates_from_impl_model"] = ncand
    ctx.harness("vh-load", ["fuzz", "--out", trace, "--cands", cands], timeout=3000)
    res = ctx.tlc_trace(SPEC, CFG, trace, timeout=3000, heap="12g")
    trace_c = ctx.path("fuzz_checked.ndjson")
    ctx.harness("vh-load", ["fuzz", "--out", trace_c, "--cands", cands, "--scale", 50], timeout=3000, profile="checked")
    res_c = ctx.tlc_trace(SPEC, CFG, trace_c, timeout=3000, heap="12g")
    if not ctx.quick or os.environ.get("VERIF_SELFTEST"):
        selftest(ctx, trace)
    finish(ctx, [(trace, res), (trace_c, res_c)])


def selftest(ctx, trace):
    """Binding self-test: corrupt recorded results of VALID models and require Trace_Loader to reject them."""
    out = []
    done = set()
    cur = None
    with open(trace) as f:
        for line in f:
            r = json.loads(line)
            if r["ev"] == "case":
                cur = r
                if len(out) > 6000 and len(done) == 4:
                    break
            valid = cur is not None and cur["mutation"] == "true"
            if valid and r["ev"] == "const" and r["shape"] and "dim" not in done:
                r = dict(r, shape=[[x for x in r["shape"][0]]] + r["shape"][1:])
                r["shape"][0] = [r["shape"][0][0] + 1] + r["shape"][0][1:]   # a dimension larger by one
                done.add("dim")
            elif valid and r["ev"] == "const" and "backing" not in done:
                r = dict(r, backing=[])                                         # no backing data
                done.add("backing")
            elif valid and r["ev"] == "const" and "wrap" not in done:
                r = dict(r, shape=[[0, 0, 4], [0, 0, 4]], count=[], backing=[])  # 2^32 x 2^32 over an empty buffer
                done.add("wrap")
            elif valid and r["ev"] == "load" and r["outcome"] == "ok" and "panic" not in done and len(done) == 3:
                r = dict(r, outcome="panic")
                done.add("panic")
            out.append(r)
    st = ctx.path("selftest.ndjson")
    with open(st, "w") as f:
        for k, r in enumerate(out):
            r["seq"] = k + 1
            f.write(json.dumps(r) + "\n")
    res = ctx.tlc_trace(SPEC, CFG, st, timeout=1800)
    got = set(b["sig"]["class"] for b in res["bad"] if b["rec"]["case"]["mutation"] == "true")
    want = ["dims product differs from the backing data length", "dims product >= 2^64 accepted", "panic"]
    missing = [w for w in want if w not in got]
    ctx.cov["binding_selftest"] = {"corruptions": sorted(done), "rejected_classes": [w for w in want if w in got]}
    if missing or len(done) < 4:
        raise vlib.ToolError("binding self-test failed: corrupted trace not rejected for %s (applied %s)" % (missing, sorted(done)))
    ctx.log("binding self-test: 4 corrupted records of valid models rejected by Trace_Loader")


def finish(ctx, runs):
    st = {}
    bad = []
    badtotal = 0
    dnt = 0
    builds = []
    for trace, res in runs:
        total, distinct, d, samples = vlib.scan_cases(
            trace, ["build", "fmt", "api", "gen", "mutation", "hex", "ext"], lambda r: r["mutation"] != "true")
        for s in samples:
            s.pop("hex", None)
            s.pop("ext", None)
        ctx.add_samples(samples, cap=6)
        dnt += d
        for k, v in res["stats"].items():
            st[k] = st.get(k, 0) + v
        bad += res["bad"]
        badtotal += res["badtotal"]
        if samples:
            builds.append(samples[0]["build"])
    ctx.cov["evaluations"] = st.get("cases", 0)
    ctx.cov["distinct_nontrivial"] = dnt
    ctx.cov["traces_validated_against_impl"] = st.get("cases", 0)
    ctx.cov["builds"] = builds
    ctx.cov["models_loaded"] = st.get("loaded", 0)
    ctx.cov["load_errors"] = st.get("errors", 0)
    ctx.cov["constants_checked"] = st.get("constants", 0)
    ctx.cov["smoke_runs"] = {k: st.get("runs_" + k, 0) for k in ("ok", "err", "panic", "other")}
    ctx.cov["loads_over_alloc_bound"] = st.get("alloc_over", 0)
    if st.get("alloc_over", 0):
        ctx.drift("%d load(s) requested a single allocation larger than Loader!LoadAllocBound(n) = 64n + 16 MiB: memory "
                  "reserved in proportion to a declared length rather than to the bytes present (not a violation of the "
                  "property text unless it ends in an abort or panic)" % st["alloc_over"])
    if st.get("runs_panic", 0) or st.get("runs_other", 0):
        ctx.cov["notes"].append(
            "smoke runs of loaded models: %d panicked, %d aborted/timed out (counted, not judged by C05 unless a memory fault)"
            % (st.get("runs_panic", 0), st.get("runs_other", 0)))
    if not ctx.replay and st.get("loaded", 0) == 0:
        raise vlib.ToolError("vacuous run: no model loaded")
    cases = {}

    def lookup(rec):
        key = (rec.get("case", {}).get("build"), rec.get("case", {}).get("id"))
        if not cases:
            for trace, _ in runs:
                with open(trace) as f:
                    for line in f:
                        if '"ev":"case"' in line:
                            r = json.loads(line)
                            cases[(r["build"], r["id"])] = r
        return cases.get(key)

    ctx.judge(bad, "vh-load fuzz", SPEC, CFG, case_lookup=lookup, badtotal=badtotal)
    ctx.finish(
        rule="cases = (byte string, load api); byte strings = valid ONNX / .rten models x structured mutations "
             "(8 ONNX dtypes x raw/typed/external data x 25 dims classes + TLC candidates, initializer and Constant-op; "
             "4 .rten dtypes x inline/offset/v1 x 17 dims classes, data_offset and header fields at every boundary) "
             "+ seeded flips/truncations; non-trivial = every case except the unmutated models",
        assumptions=[
            "undefined behaviour is not observed directly: the check is the arithmetic precondition (dims product = "
            "backing length, in unbounded arithmetic) that makes the later unchecked accesses safe, plus absence of "
            "panic/abort/hang, plus memory faults of a smoke run",
            "constants are read through Model::verif_graph() (hook); constants inside subgraphs are not visited",
            "children run with RLIMIT_AS = 8 GiB and a CPU-time limit of 1.5 s per load+run of a < 3 KB file",
            "build profiles exercised: harness profile `release` (overflow checks and debug assertions off) and "
            "`checked` (the same plus overflow-checks and debug-assertions); a panic in either is a violation",
        ],
        exhaustive=False)
