"""C08 - The overlap check never admits aliasing layouts.

Contract (Overlap.tla): accepted as non-overlapping => Injective(shape, strides) in exact
arithmetic; layouts derived from a contiguous layout by slicing/permuting/reshaping are accepted.

1. TLC model-checks the transcribed criterion (may_have_internal_overlap) against Injective on every
   layout of rank <= 3, sizes 0..3, strides 0..9 (0..5 in the quick tier; exact arithmetic), on a K-bit machine model (wrap
   candidates), on the closure of contiguous layouts under slice/step/index/permute/insert/squeeze/merge,
   and emits all of these plus a grid of 64-bit corner values.
2. spec -> impl: vh-tensor overlap submits each layout to the real acceptance APIs (DynLayout/NdLayout
   from_shape_and_strides(DisallowOverlap), TensorViewMut/NdTensorViewMut/Tensor::from_data_with_strides,
   from_storage_and_layout with mutable storage, has_capacity/append) in a release build and records the
   outcome; it also derives layouts with the real slicing/permuting API and re-submits them.
3. Trace_Overlap decides injectivity itself (exact ints / Word limbs) and judges every outcome."""
import concurrent.futures
import json
import os
import random
import re
import time

import vlib

SPEC = "tensor/MC_Overlap"
TSPEC = "tensor/Trace_Overlap"
TCFG = "tensor/Trace_Overlap.cfg"
_STR = r'"((?:[^"\\]|\\.)*)"'


def mc_generate(ctx, cfg, outfile, workers=6, timeout=1500, label=None):
    """Model-check MC_Overlap with `cfg` (invariants must hold: a design-level failure is a tool error)
    and collect the REPLAY vectors it emits."""
    rc, out, dt = ctx._tlc(SPEC, cfg, workers, timeout, heap="8g")
    ok = rc == 0 and "Model checking completed. No error has been found." in out
    gen, distinct = ctx._stats(out)
    n = 0
    with open(outfile, "w") as f:
        for m in re.finditer(r'<<"REPLAY", %s>>' % _STR, out):
            f.write(vlib.tla_unescape(m.group(1)).replace("\n", " ") + "\n")
            n += 1
    ctx.cov["mc_runs"].append({"spec": SPEC, "cfg": cfg, "label": label or cfg, "states_generated": gen,
                               "distinct_states": distinct, "ok": ok, "vectors": n, "wall_s": round(dt, 1)})
    ctx.cov["states"] += distinct
    ctx.cov["transitions"] += gen
    ctx.log("TLC %s: %d distinct states, %d vectors, ok=%s, %.1fs" % (os.path.basename(cfg), distinct, n, ok, dt))
    if not ok:
        import sys
        sys.stdout.write(re.sub(r'<<"REPLAY".*\n', "", out)[-4000:])
        raise vlib.ToolError("model checking of %s with %s did not complete cleanly (rc=%s)" % (SPEC, cfg, rc))
    return n


def validate_parallel(ctx, layout_files, derived, jobs=4):
    """Run harness + trace validation on each layouts file (chunks) concurrently."""
    def one(i_f):
        i, f = i_f
        time.sleep(0.41 * i)  # TLC metadir names are derived from the clock
        trace = ctx.path("overlap_%d.ndjson" % i)
        args = ["overlap", "--out", trace, "--layouts", f]
        if i == 0 and derived:
            args += ["--derived", derived]
        cur = ctx.path("current_%d.json" % i)
        try:
            ctx.harness("vh-tensor", args, env={"VERIF_CURRENT": cur})
        except vlib.ToolError as ex:
            last = open(cur).read()[:400] if os.path.exists(cur) else "?"
            raise vlib.ToolError("%s; case being run: %s" % (ex, last))
        res = ctx.tlc_trace(TSPEC, TCFG, trace, timeout=3000, heap="4g")
        return trace, res
    with concurrent.futures.ThreadPoolExecutor(max_workers=jobs) as ex:
        return list(ex.map(one, list(enumerate(layout_files))))


def split_file(path, n, ctx, tag):
    lines = open(path).read().splitlines()
    n = max(1, min(n, len(lines)))
    outs = []
    for i in range(n):
        p = ctx.path("%s_%d.jsonl" % (tag, i))
        with open(p, "w") as f:
            f.write("\n".join(lines[i::n]) + ("\n" if lines[i::n] else ""))
        outs.append(p)
    return outs


def run(ctx):
    ctx.build(["vh-tensor"])
    if ctx.replay:
        return replay(ctx)
    q = ctx.quick
    allv = ctx.path("layouts_all.jsonl")
    # ---- 1. model checking + vector generation: one TLC run over the four sub-models
    vec = ctx.path("vectors.jsonl")
    mc_generate(ctx, "tensor/MC_Overlap_quick.cfg" if q else "tensor/MC_Overlap_thorough.cfg", vec, workers=8, timeout=2400,
                label="small: ~MayOverlapImpl => Injective (+ agreement of int/Word transcriptions); wrap: K-bit usize model; "
                      "derived: closure of contiguous layouts accepted and injective; huge: 64-bit corner grid")
    by = {}
    for line in sorted(set(open(vec).read().splitlines())):  # derived layouts are reached at several depths
        by.setdefault(json.loads(line)["class"], []).append(line)
    for c, ls in by.items():
        ctx.cov["vectors_" + c] = len(ls)
    rnd = random.Random(ctx.seed)
    if q:
        # rank <= 2 exhaustively + seeded samples of the larger classes
        low = [x for x in by.get("small", []) if len(json.loads(x)["shape"]) <= 2]
        hi = [x for x in by.get("small", []) if len(json.loads(x)["shape"]) == 3]
        by["small"] = low + rnd.sample(hi, min(2500, len(hi)))
        for c, n in (("wrap_candidate", 500), ("wrap_sensitive", 200), ("derived", 2000)):
            if len(by.get(c, [])) > n:
                by[c] = rnd.sample(by[c], n)
    with open(allv, "w") as f:
        for c in sorted(by):
            f.write("\n".join(by[c]) + "\n")
            ctx.cov["replayed_" + c] = len(by[c])
    # ---- 2/3. replay on the real code, validate
    jobs = 4
    files = split_file(allv, jobs if q else 8, ctx, "chunk")
    results = validate_parallel(ctx, files, 250 if q else 4000, jobs=jobs)
    finish(ctx, results)


def finish(ctx, results):
    total = dnt = 0
    seen = set()

    def nontrivial(r):
        # at least two non-unit dims, or a non-unit dim with a non-unit stride
        nonunit = [i for i, s in enumerate(r["shapeW"]) if s != [1]]
        return len(nonunit) >= 2 or any(r["stridesW"][i] != [1] for i in nonunit)

    merged = {}
    drift, drift_first = {}, {}
    for trace, res in results:
        with open(trace) as f:
            for line in f:
                r = json.loads(line)
                total += 1
                key = json.dumps([r["shapeW"], r["stridesW"]])
                if key in seen:
                    continue
                seen.add(key)
                if nontrivial(r):
                    dnt += 1
                    if dnt % 997 == 1:
                        ctx.add_samples([{"class": r["class"], "shapeW": r["shapeW"], "stridesW": r["stridesW"],
                                          "ops": r["ops"], "outcomes": {x["api"]: x["outcome"] for x in r["subs"]}}])
        for b in res["bad"]:  # one entry per signature over all chunks
            key = json.dumps(b["sig"], sort_keys=True)
            if key in merged:
                merged[key]["count"] += b.get("count", 1)
            else:
                merged[key] = dict(b)
        for k in ("submits", "accepted", "undecided"):
            ctx.cov[k] = ctx.cov.get(k, 0) + res["stats"].get(k, 0)
        # DRIFT: the storage-free APIs answer what the transcription of the current code predicts
        for m in re.finditer(r'<<"DRIFTSIG", %s, (\d+)>>' % _STR, res["out"]):
            k = vlib.tla_unescape(m.group(1))
            drift[k] = drift.get(k, 0) + int(m.group(2))
        for m in re.finditer(r'<<"DRIFTCASE", %s, %s>>' % (_STR, _STR), res["out"]):
            drift_first.setdefault(json.dumps(json.loads(vlib.tla_unescape(m.group(1))), sort_keys=True),
                                   vlib.tla_unescape(m.group(2))[:240])
    for k, v in sorted(drift.items()):
        ctx.drift("%s count=%d first=%s" % (k, v, drift_first.get(json.dumps(json.loads(k), sort_keys=True), "")))
    ctx.judge(list(merged.values()), "vh-tensor overlap", TSPEC, TCFG, case_lookup=lambda rec: rec.get("case"))
    ctx.cov["evaluations"] = total
    ctx.cov["distinct_layouts"] = len(seen)
    ctx.cov["distinct_nontrivial"] = dnt
    ctx.cov["traces_validated_against_impl"] = total
    ctx.finish(
        rule="case = one (shape, strides) layout submitted to every acceptance API (9-12 submissions per layout); distinct by "
             "(shape, strides) over the whole run; non-trivial = at least two non-unit dims or a non-unit dim with stride != 1",
        assumptions=["injectivity is decided over true (unbounded) offsets; layouts too large to enumerate are decided only "
                     "when a colliding index pair or the exact step-over criterion settles it (coverage.undecided counts the rest, never flagged)",
                     "class derived_api trusts that the harness obtained the layout by the logged chain of real slice/permute/split/insert calls",
                     "append is only executed when the layout's true extent fits the allocation"],
        exhaustive=not ctx.quick,
        explanation="thorough: every layout of rank<=3, sizes 0..3, strides 0..9 is model-checked AND replayed on the real code; "
                    "quick: strides 0..5, rank<=2 replayed exhaustively, rank 3 sampled. wrap/huge classes are enumerations of stated finite sets")


def replay(ctx):
    rp = ctx.replay
    case = rp["record"]["case"]
    f = ctx.path("replay.jsonl")
    with open(f, "w") as fh:
        fh.write(json.dumps({"class": case["class"], "shapeW": case["shapeW"], "stridesW": case["stridesW"]}) + "\n")
    results = validate_parallel(ctx, [f], 0, jobs=1)
    finish(ctx, results)
