"""C27 - Byte-level BPE tokenization round-trips and reports consistent offsets.

impl -> spec: vh-text bpe builds seeded byte-level BPE tokenizers (merge tables trained on seeded text plus
random byte/token pairs incl. pairs cutting through UTF-8 sequences, explicit vocabulary with seeded sparse/large id schemes over the whole u32 id space (bytes, merged tokens and
added tokens offset by 2^8..2^31, 2^16 +- 1, counting down from 2^31-1 / u32::MAX, sparse random, large ids whose low 16
bits equal a byte token's id) or derived vocabulary, added
tokens, ignore_merges, pre-tokenizers none / ByteLevel / Split(Isolated) patterns / Bert / Digits / sequences,
optional no-op BERT normalizer; through Tokenizer::from_json and through the builder API) and encodes seeded
Unicode text.  Trace_Roundtrip computes UTF-8 boundaries from the logged input bytes and judges the round
trip, the offsets and the slices.  The inductive core (merging never changes the bytes: Expand(tokens) =
input) is model-checked on Bpe.tla."""
import os
import sys

import vlib

sys.path.insert(0, os.path.dirname(os.path.abspath(__file__)))
import _textlib as textlib  # noqa: E402

SPEC = "text/Trace_Roundtrip"
CFG = "text/Trace_Roundtrip.cfg"


def params(ctx):
    return (40, 50, 24) if ctx.quick else (400, 250, 40)


def run(ctx):
    ctx.level = "exploration"
    ctx.build(["vh-text"])
    ntok, ntext, pieces = params(ctx)
    args = ["bpe", "--tokenizers", ntok, "--texts", ntext, "--max-pieces", pieces]
    trace = ctx.path("roundtrip.ndjson")
    if ctx.replay:
        case = ctx.replay["case"]
        ctx.harness("vh-text", args + ["--out", trace, "--only", "%d,%d" % (case["tk"], case["ti"])])
        res = ctx.tlc_trace(SPEC, CFG, trace)
        return finish(ctx, trace, res)
    ctx.tlc_mc("text/MC_Bpe", "text/MC_Bpe_inv_k3m2l4.cfg" if ctx.quick else "text/MC_Bpe_inv_k3m2l6.cfg",
               workers=4 if ctx.quick else 8, timeout=1800, label="Expand(tokens) = input is invariant under MergeStep")
    ctx.harness("vh-text", args + ["--out", trace])
    res = textlib.trace_sharded(ctx, SPEC, CFG, trace, shard_lines=40000, parallel=4)
    if not ctx.quick:
        textlib.binding_self_test(ctx, SPEC, CFG, trace, flip_decoded_byte, {"pred": "roundtrip", "class": "other"})
    finish(ctx, trace, res)


def flip_decoded_byte(r):
    if r.get("ev") == "ret" and r.get("out") == "ok" and r.get("dec_out") == "ok" and len(r.get("dec", [])) >= 3:
        r["dec"][1] = (r["dec"][1] + 1) % 128 if r["dec"][1] != 10 else 11
        return True
    return False


def finish(ctx, trace, res):
    def nontrivial(r):  # multi-byte characters present and a non-empty merge table
        return any(b >= 128 for b in r["text"]) and r["nmerges"] > 0

    total, distinct, dnt, samples = vlib.scan_cases(trace, ["tk", "ti", "pretok", "via", "nmerges", "idscheme", "text"], nontrivial)
    st = res["stats"]
    ctx.cov["evaluations"] = st.get("judged", 0)
    ctx.cov["distinct_nontrivial"] = dnt
    ctx.cov["traces_validated_against_impl"] = total
    ctx.cov["trace_stats"] = st
    ctx.add_samples([{k: (v if k != "text" else bytes(v).decode("utf-8", "replace")) for k, v in s.items()} for s in samples])
    ctx.judge(res["bad"], "vh-text bpe", SPEC, CFG, case_lookup=lambda rec: rec.get("case"), badtotal=res["badtotal"])
    ctx.finish(
        rule="cases = (seeded tokenizer, seeded text); distinct by (tokenizer, text); non-trivial = the text has multi-byte "
             "characters and the tokenizer has a non-empty merge table",
        assumptions=["tokenizers in scope: byte-level Bpe without end_of_word_suffix, normalizer none or the no-op BERT normalizer, "
                     "pre-tokenizers that are specified to keep all text (none, ByteLevel, Split with Isolated delimiters, "
                     "BertPreTokenizer, Digits, sequences of these); Split with Removed delimiters is lossy by request and excluded",
                     "encode errors (Err results) are counted, not judged",
                     "input text is well-formed UTF-8 (a Rust String)"],
        exhaustive=False)
