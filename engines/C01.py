"""C01 - Graph optimization preserves model semantics.

1. Design level: TLC model-checks specs/opt/FusionRules.tla, an implementation-shaped transcription of the
   match conditions of the exact-family fusions (IdentityFusion, CastElimination, ReciprocalFusion,
   ReduceMeanAxesFusion, MatMulAddFusion, MatMulScaleFusion, RepeatInterleaveFusion, ShapeSliceToConstant) as a
   rewrite system (operand positions exactly as the code has them: Add/Mul commutative, Sub/Div/MatMul positional,
   Div scales only by its divisor) over every pattern-shaped graph AND its near misses (constant on the other side of
   Sub/Div, c / x next to a MatMul, Sub instead of Add after a MatMul, Slice with an axes input, intermediates that are
   graph outputs, off-neutral / 2-element constants) of <= 3 (identity chains: 2) operators, constant shapes
   {[], [1], [1,1], [2]} and input shapes {[2], [1,2], [2,1], [2,2]}; the invariant (denotation by OnnxOps
   preserved: shapes AND data) was violated by the originally pinned tree (one-element constants of any rank,
   bias length, tile-shaped RepeatInterleave, ...); the transcription follows the repaired match conditions and finds
   no violating graph now. Every violating graph is a CANDIDATE.
2. spec -> impl: every candidate is replayed on the real code by `vh-opt replay` and judged by Trace_Optimize;
   only confirmed candidates count, the others are drift of the transcription / of the operator reference.
3. impl -> spec: `vh-opt record` generates ONNX models (every fusion template with perturbations; for every template
   program its mechanically derived single-edit NEAR-MISS neighbourhood - operands of every node swapped, binary operator
   replaced by its sibling, an intermediate requested as graph output / consumed twice, every attribute off its value,
   one-element constants given another rank / turned into a vector / another value, an Identity inserted on an edge -
   i.e. the graphs a fusion must NOT rewrite or must rewrite differently; random DAGs over the exact integer subset;
   shape-arithmetic chains), loads each under {optimize off,on} x {shape inference
   off,on,strict}, runs it on 2-3 conforming input sets; TLC validates every recorded case against
   specs/opt/OptimizeContract.tla (differential, baseline = unoptimised) and, on the exact subset, evaluates the
   logged graph itself with OnnxOps (specs/opt/GraphEval.tla) and compares the baseline with it."""
import collections
import concurrent.futures
import hashlib
import json
import os
import re

import vlib

SPEC = "opt/Trace_Optimize"
CFG = "opt/Trace_Optimize.cfg"


# ------------------------------------------------------------------------------------------------ recording
def run_harness(ctx, args, trace):
    """Run `vh-opt <args> --out trace`; if the process dies inside a case (abort / stack overflow / OOM of the code
    under test) the dying case gets an `aborted` ret record and the run resumes after that program."""
    first, skip, parts = 1, 0, []
    for attempt in range(40):
        part = "%s.part%d" % (trace, attempt)
        rc, out = ctx.run([ctx.bin("vh-opt")] + args + ["--out", part, "--first-id", str(first), "--skip", str(skip)],
                          env={"VERIF_SEED": str(ctx.seed), "VERIF_TIER": ctx.tier}, cwd=ctx.work, timeout=3600)
        parts.append(part)
        if rc == 0:
            break
        if rc in (2, 124) or not os.path.exists(part):
            raise vlib.ToolError("vh-opt %s failed rc=%s: %s" % (args[:1], rc, out[-2000:]))
        lines = []
        for ln in open(part).read().splitlines():
            try:
                lines.append((ln, json.loads(ln)))
            except Exception:
                continue
        if not lines or lines[-1][1].get("ev") != "case":
            raise vlib.ToolError("vh-opt died outside a case rc=%s: %s" % (rc, out[-2000:]))
        last = lines[-1][1]
        with open(part, "w") as f:
            for ln, _ in lines:
                f.write(ln + "\n")
            f.write(json.dumps({"ev": "ret", "id": last["id"], "aborted": True, "changed": False, "cfgs": [],
                                "seq": 0, "msg": "process exit %s" % rc}) + "\n")
        first, skip = last["id"] + 1, last["prog"]
    else:
        raise vlib.ToolError("vh-opt kept dying")
    with open(trace, "w") as f:
        for p in parts:
            f.write(open(p).read())
            os.remove(p)
    return trace


def split_trace(trace, n):
    """Split a trace into n chunks at case boundaries (case, ret pairs)."""
    lines = open(trace).read().splitlines()
    pairs = [lines[i:i + 2] for i in range(0, len(lines), 2)]
    per = max(1, (len(pairs) + n - 1) // n)
    out = []
    for k in range(0, len(pairs), per):
        p = "%s.c%d" % (trace, k // per)
        with open(p, "w") as f:
            for pr in pairs[k:k + per]:
                f.write("\n".join(pr) + "\n")
        out.append(p)
    return out


def validate(ctx, traces, workers=4):
    cfg_text = open(os.path.join(vlib.SPECS, CFG)).read()

    def work(i):
        cfg = ctx.path("Trace_Optimize_%d_%s.cfg" % (i, hashlib.sha1(traces[i].encode()).hexdigest()[:6]))
        with open(cfg, "w") as f:
            f.write(cfg_text)
        return ctx.tlc_trace(SPEC, cfg, traces[i], timeout=3000, heap="5g", env={"JAVA_TOOL_OPTIONS": "-Xss1g -Dtlc2.tool.queue.IStateQueue=StateDeque -XX:ParallelGCThreads=2"})

    bad, stats = [], collections.Counter()
    with concurrent.futures.ThreadPoolExecutor(max_workers=workers) as ex:
        for res in ex.map(work, range(len(traces))):
            bad += res["bad"]
            stats.update(res["stats"])
    for t in ctx.cov["trace_runs"]:
        t["cfg"] = CFG
    return bad, stats


# ------------------------------------------------------------------------------------------------- scanning
def scan(trace, acc):
    """Per family: programs, runs, runs whose optimised graph differs from the unoptimised one, which fused operators
    appeared, outcome classes; distinct / non-trivial cases; samples."""
    cur = None
    for line in open(trace):
        r = json.loads(line)
        if r["ev"] == "case":
            cur = r
            continue
        if cur is None:
            continue
        fam = acc["fams"].setdefault(cur["fam"], {"runs": 0, "programs": 0, "optimised_graph_differs": 0, "baseline_ok": 0,
                                                  "fired": collections.Counter(), "pclasses": collections.Counter()})
        fam["runs"] += 1
        nm = cur["variant"].startswith("nm_")
        if nm and not r.get("aborted"):
            h = acc["near_miss"].setdefault(cur["variant"], {"runs": 0, "baseline_ok": 0, "optimised_graph_differs": 0})
            h["runs"] += 1
            h["baseline_ok"] += r["cfgs"][0]["outcome"] == "ok"
            h["optimised_graph_differs"] += bool(r["changed"])
        if cur.get("run", 0) == 0:
            fam["programs"] += 1
            fam["pclasses"][cur["variant"] if nm else (cur.get("pat") + "/" if cur.get("pat") else "") + cur["variant"]] += 1
        acc["total"] += 1
        if r.get("aborted"):
            acc["aborted"] += 1
            cur = None
            continue
        cfgs = r["cfgs"]
        base_ok = cfgs[0]["outcome"] == "ok"
        if base_ok:
            fam["baseline_ok"] += 1
        if r["changed"]:
            fam["optimised_graph_differs"] += 1
        if cur.get("run", 0) == 0:
            seen = set()
            for k in (3, 4):
                if cfgs[k]["outcome"] in ("loaderr", "panic_load"):
                    continue
                d = cfgs[k]["delta"]
                for tok in re.findall(r"[+-][\w()]+:\d+", d):
                    if tok[0] == "+":
                        seen.add(tok[1:])
                # rewrites that only remove operators
                if d and "+" not in d:
                    seen.add("(removed:%s)" % d)
            for s in seen:
                fam["fired"][s] += 1
                acc["fired"][s] += 1
        key = hashlib.sha1(json.dumps([cur["nodes"], cur["inits"], cur["inputs"], cur["feeds"], cur["outputs"]], sort_keys=True).encode()).digest()
        if key not in acc["seen"]:
            acc["seen"].add(key)
            if base_ok and r["changed"]:
                acc["dnt"] += 1
                if len(acc["samples"]) < 5 and len(line) < 2500 and cur["fam"] not in acc["sample_fams"]:
                    acc["sample_fams"].add(cur["fam"])
                    acc["samples"].append({
                        "family": cur["fam"], "pattern_class": cur["variant"],
                        "nodes": [{"op": n["op"], "ins": n["ins"], "outs": n["outs"]} for n in cur["nodes"]],
                        "initializers": [{"name": t["name"], "shape": t["shape"], "data": t["data"]} for t in cur["inits"]],
                        "inputs": [{"name": t["name"], "shape": t["shape"]} for t in cur["feeds"]],
                        "operators_unoptimised": cfgs[0]["ops"], "operators_optimised_infer_on": cfgs[4]["ops"],
                        "outcomes": [c["outcome"] for c in cfgs]})
        cur = None


def new_acc():
    return {"total": 0, "fams": {}, "seen": set(), "dnt": 0, "samples": [], "sample_fams": set(), "aborted": 0,
            "fired": collections.Counter(), "near_miss": {}}


# ------------------------------------------------------------------------------------------- design-level MC
def candidates_from(out):
    cands, seen = [], set()
    for m in re.finditer(r'<<"CANDIDATE", %s>>' % vlib._STR, out):
        s = vlib.tla_unescape(m.group(1))
        if s in seen:
            continue
        seen.add(s)
        cands.append(json.loads(s))
    rewritten = collections.Counter()
    for m in re.finditer(r'<<"REWRITTEN", %s>>' % vlib._STR, out):
        j = json.loads(vlib.tla_unescape(m.group(1)))
        rewritten[(j["fam"], "+".join(j["rules"]) or "none", j["st"], j["ok"])] += 1
    return cands, rewritten


def model_check(ctx):
    cfg = "opt/MC_FusionRules_quick.cfg" if ctx.quick else "opt/MC_FusionRules_thorough.cfg"
    info, out = ctx.tlc_mc("opt/FusionRules", cfg, workers=3, timeout=3000, heap="6g", label="rewrite rules, all pattern-shaped graphs")
    cands, rewritten = candidates_from(out)
    by = collections.Counter((c["fam"], c["variant"], "+".join(c["rules"])) for c in cands)
    rules = collections.Counter()
    for (f, r, st, ok), n in rewritten.items():
        for x in r.split("+"):
            rules[x] += n
    ctx.cov["fusion_rules"] = {
        "graphs_enumerated": sum(rewritten.values()),
        "graphs_with_defined_exact_denotation": sum(n for (f, r, st, ok), n in rewritten.items() if st == "ok"),
        "graphs_rewritten": sum(n for (f, r, st, ok), n in rewritten.items() if r != "none"),
        "rule_applications": dict(sorted(rules.items())),
        "candidates": len(cands),
        "candidates_by_family_class_rules": {"%s/%s/%s" % k: v for k, v in sorted(by.items())},
    }
    ctx.cov["fusion_rules"]["graphs_by_family_rules_outcome"] = {
        "%s/%s/%s" % (f, r, "original undefined or inexact" if st != "ok" else "preserved" if ok else "CHANGED"): n
        for (f, r, st, ok), n in sorted(rewritten.items())}
    return cands


# --------------------------------------------------------------------------------------------------- verdict
def judge_all(ctx, bad, engine):
    """Contract failures -> ctx.judge (VIOLATION unless a known finding). Reference disagreements (baseline differs
    from the OnnxOps denotation in every configuration alike) are not C01 violations: reported as drift."""
    contract = [b for b in bad if b["sig"].get("kind") == "contract"]
    ref = [b for b in bad if b["sig"].get("kind") != "contract"]
    ctx.judge(contract, engine, SPEC, CFG, case_lookup=lambda rec: rec.get("case"))
    if ref:
        by = collections.Counter()
        for b in ref:
            ops = sorted({n["op"] for n in b["rec"]["case"]["nodes"]})
            by[(b["sig"]["fam"], b["sig"]["pclass"], b["sig"]["class"], ",".join(ops))] += b.get("count", 1)
        ctx.cov["reference_disagreements"] = [{"family": k[0], "pattern_class": k[1], "class": k[2], "operators": k[3], "runs": v}
                                              for k, v in sorted(by.items())]
        ctx.drift("baseline (unoptimised) result differs from the OnnxOps graph denotation in %d signature(s) (operator-level "
                  "disagreement present in every configuration alike: C15's subject, not a C01 violation): %s" % (
                      len(by), "; ".join("%s/%s %s [%s]" % k for k in sorted(by)[:8])))


def family_table(acc):
    t = {}
    for f, h in sorted(acc["fams"].items()):
        t[f] = {"programs": h["programs"], "runs": h["runs"], "baseline_ok_runs": h["baseline_ok"],
                "runs_where_optimised_graph_differs": h["optimised_graph_differs"],
                "fused_operators_seen_in_programs": dict(sorted(h["fired"].items())),
                "pattern_classes": dict(sorted(h["pclasses"].items())) if len(h["pclasses"]) <= 40 else len(h["pclasses"])}
    return t


def finish(ctx, acc, stats, ncand=0, confirmed=None):
    ctx.cov["evaluations"] = acc["total"]
    ctx.cov["distinct"] = len(acc["seen"])
    ctx.cov["distinct_nontrivial"] = acc["dnt"]
    ctx.cov["traces_validated_against_impl"] = acc["total"]
    ctx.cov["programs"] = sum(h["programs"] for h in acc["fams"].values())
    ctx.cov["configurations_judged"] = stats.get("judged_cfgs", 0)
    ctx.cov["runs_baseline_ok"] = stats.get("base_ok", 0)
    ctx.cov["runs_baseline_failed_unconstrained"] = stats.get("base_fail", 0)
    ctx.cov["runs_where_optimisation_rescued_a_failing_baseline"] = stats.get("opt_rescued", 0)
    ctx.cov["strict_mode_load_rejections_not_judged"] = stats.get("strict_rejects", 0)
    ctx.cov["runs_judged_against_graph_reference"] = stats.get("ref_ok", 0)
    ctx.cov["runs_outside_exact_subset"] = stats.get("ref_unjudged", 0)
    ctx.cov["runs_optimised_graph_differs"] = stats.get("changed", 0)
    ctx.cov["aborted_runs_unjudged"] = stats.get("aborted", 0)
    ctx.cov["families"] = family_table(acc)
    ctx.cov["near_miss_runs"] = dict(sorted(acc["near_miss"].items()))
    ctx.cov["near_miss_runs_total"] = sum(h["runs"] for h in acc["near_miss"].values())
    ctx.cov["fused_operators_seen"] = dict(sorted(acc["fired"].items()))
    ctx.cov["disagreements_checked"] = sum(v["count"] for v in ctx.violations) + sum(c for _, c in ctx.known) + sum(
        d["runs"] for d in ctx.cov.get("reference_disagreements", []))
    if confirmed is not None:
        ctx.cov["fusion_rules"]["candidates_replayed"] = ncand
        ctx.cov["fusion_rules"]["candidates_confirmed_on_real_code"] = confirmed
    ctx.add_samples(acc["samples"])
    if stats.get("aborted", 0):
        ctx.drift("%d run(s) killed the harness process (abort in the code under test); not attributable to a configuration, not judged" % stats["aborted"])
    ctx.finish(
        rule="case = one run of one generated ONNX model on one conforming input set under the 6 configurations; distinct by (nodes, "
             "attributes, initializers, input declarations, input data); non-trivial = baseline succeeded AND the operator list of "
             "some optimised configuration differs from the unoptimised graph (Model::verif_graph), i.e. a rewrite fired. "
             "coverage.families lists per template family the pattern classes generated and which fused operators appeared; "
             "coverage.fusion_rules the design-level enumeration, its candidates and how many were confirmed on the real code",
        assumptions=[
            "OptimizeContract.tla is the reading of the statement: baseline = (optimize off, inference off); a strict-mode LOAD "
            "error is documented behaviour of ShapeInferenceMode::Strict and is counted, not judged",
            "float outputs: ULP distance computed in TLA+ from the logged bit patterns (<= 64 ULP) or harness-projected absolute "
            "difference <= 1e-5 (loose bound 8192 ULP / 1e-3 only for cases whose pattern constant was deliberately moved by 5e-5, "
            "inside the matcher's documented CONST_TOLERANCE)",
            "outputs are requested by position (Model::output_ids); the same request by name must also succeed (class byname_*)",
            "the graph reference (GraphEval/OnnxOps) judges only the baseline and only when every node is inside the exact subset; "
            "a disagreement there is reported as drift (operator-level, all configurations alike)",
            "the harness's ONNX encoder (vcommon::onnx) and rten's loader agree on the model being run",
            "random generators avoid the triggers of already-registered findings (each has its own template family)",
        ],
        exhaustive=False)


def run(ctx):
    ctx.level = "model_checking"
    ctx.build(["vh-ops"])
    if ctx.replay:
        return replay(ctx)
    per = 6 if ctx.quick else 200
    acc = new_acc()
    trace = ctx.path("opt.ndjson")
    with concurrent.futures.ThreadPoolExecutor(max_workers=2) as ex:
        fut_mc = ex.submit(model_check, ctx)
        # near misses: quick = every operand swap / operator substitution + one of each other kind for each of the
        # first 6 programs of every template family; thorough = all near misses of the first 12 programs
        nm_args = ["--nm", "6"] if ctx.quick else ["--nm", "12", "--nm-all"]
        fut_rec = ex.submit(run_harness, ctx, ["record", "--per", str(per)] + nm_args, trace)
        fut_rec.result()
        chunks = split_trace(trace, 4 if ctx.quick else 16)
        bad, stats = validate(ctx, chunks, workers=4)
        cands = fut_mc.result()
    scan(trace, acc)
    # spec -> impl: replay the design-level candidates on the real code
    confirmed = 0
    if cands:
        cf = ctx.path("candidates.jsonl")
        with open(cf, "w") as f:
            for c in cands:
                f.write(json.dumps(c) + "\n")
        ctrace = run_harness(ctx, ["replay", "--cases-file", cf], ctx.path("candidates.ndjson"))
        cchunks = split_trace(ctrace, 2 if ctx.quick else 4)
        cbad, cstats = validate(ctx, cchunks, workers=4)
        ids = set()
        for b in cbad:
            if b["sig"].get("kind") == "contract":
                ids.add(json.dumps(b["sig"], sort_keys=True))
        # number of candidate runs with a failing contract predicate
        confirmed = sum(b.get("count", 1) for b in cbad if b["sig"].get("kind") == "contract")
        confirmed = min(confirmed, len(cands))
        if confirmed < len(cands):
            ctx.drift("FusionRules: %d of %d design-level candidates were not confirmed on the real code (the baseline itself differs "
                      "from the operator reference, or the unoptimised run fails): transcription / reference drift, not violations"
                      % (len(cands) - confirmed, len(cands)))
        scan(ctrace, acc)
        bad += cbad
        stats.update(cstats)
    if not ctx.quick:
        self_test(ctx, trace)
    judge_all(ctx, bad, "vh-opt record")
    finish(ctx, acc, stats, len(cands), confirmed)


# -------------------------------------------------------------------------------------------- binding self-test
def self_test(ctx, trace):
    """Corrupt single recorded fields of clean cases; Trace_Optimize must flag each corruption with the right class."""
    pairs = []
    lines = open(trace).read().splitlines()
    for i in range(0, len(lines) - 1, 2):
        c, r = json.loads(lines[i]), json.loads(lines[i + 1])
        if r.get("aborted") or any(cf["outcome"] != "ok" for cf in r["cfgs"]):
            continue
        o = r["cfgs"][4]["outs"][0]
        if o["dtype"] == "f32" and len(o["data"]) >= 2 and len(o["shape"]) >= 1 and o["nonint"] == 0 and c["fam"] in ("transpose", "matmul_add", "conv_add"):
            pairs.append((c, r))
        if len(pairs) >= 6:
            break
    if len(pairs) < 2:
        raise vlib.ToolError("binding self-test: no clean case to corrupt")
    base = ctx.path("selftest_base.ndjson")
    with open(base, "w") as f:
        for c, r in pairs:
            f.write(json.dumps(c) + "\n" + json.dumps(r) + "\n")
    res = ctx.tlc_trace(SPEC, CFG, base, timeout=600)
    if [b for b in res["bad"] if b["sig"]["kind"] == "contract"]:
        raise vlib.ToolError("binding self-test: the uncorrupted base trace is not clean")
    results = {}
    wants = {"value": "data", "ulp": "", "shape": "shape", "dtype": "dtype", "panic": "panic_run", "nan": "nan", "count": "count",
             "baseline_value": "data"}
    for kind, want in wants.items():
        out = []
        for n, (c, r) in enumerate(pairs):
            c, r = json.loads(json.dumps(c)), json.loads(json.dumps(r))
            if n == 0:
                cf = r["cfgs"][0 if kind == "baseline_value" else 4]
                o = cf["outs"][0]
                if kind in ("value", "baseline_value"):
                    o["data"][1] += 1
                    o["bits"][1] = o["bits"][1] + (1 << 20) if o["bits"][1] >= 0 else o["bits"][1] - (1 << 20)
                    if kind == "value":
                        o["adq"][1] = 1 << 30
                    else:
                        for k in range(1, 6):
                            r["cfgs"][k]["outs"][0]["adq"][1] = 1 << 30
                elif kind == "ulp":
                    o["bits"][1] += 3        # 3 ULP: inside the tolerance, must NOT be flagged
                    o["adq"][1] = 1 << 30
                elif kind == "shape":
                    o["shape"] = o["shape"] + [1]
                elif kind == "dtype":
                    o["dtype"] = "i32"
                elif kind == "panic":
                    cf["outcome"], cf["outs"] = "panic_run", []
                elif kind == "nan":
                    o["bits"][1] = 2143289344  # 0x7FC00000
                    o["adq"][1] = -1
                elif kind == "count":
                    cf["outs"] = cf["outs"] + [cf["outs"][0]]
            out.append((c, r))
        path = ctx.path("selftest_%s.ndjson" % kind)
        with open(path, "w") as f:
            for c, r in out:
                f.write(json.dumps(c) + "\n" + json.dumps(r) + "\n")
        cfg = ctx.path("Trace_Optimize_selftest_%s.cfg" % kind)
        with open(cfg, "w") as f:
            f.write(open(os.path.join(vlib.SPECS, CFG)).read())
        res = ctx.tlc_trace(SPEC, cfg, path, timeout=600)
        classes = sorted(b["sig"]["class"] for b in res["bad"] if b["sig"]["kind"] == "contract")
        results[kind] = classes
        if classes != ([want] if want else []):
            raise vlib.ToolError("binding self-test failed: corruption '%s' gave %s, expected %s" % (kind, classes, [want] if want else []))
    ctx.cov["binding_self_test"] = {"corruptions": results,
                                    "note": "one recorded field of one configuration corrupted per run (value +1, 3-ULP nudge, shape, dtype, "
                                            "panic outcome, NaN, extra output, baseline value); every corruption outside the tolerance is flagged "
                                            "with the right class, the 3-ULP nudge is accepted; a dropped record is not accepted (case/ret alternation)"}
    ctx.cov["trace_runs"] = [t for t in ctx.cov["trace_runs"] if "selftest" not in t["trace"]]


def replay(ctx):
    case = ctx.replay["case"] or ctx.replay["record"].get("case")
    cf = ctx.path("replay.jsonl")
    with open(cf, "w") as f:
        f.write(json.dumps(case) + "\n")
    trace = run_harness(ctx, ["replay", "--cases-file", cf], ctx.path("replay.ndjson"))
    res = ctx.tlc_trace(SPEC, CFG, trace)
    acc = new_acc()
    scan(trace, acc)
    ctx.cov["fusion_rules"] = {}
    judge_all(ctx, res["bad"], "vh-opt replay")
    finish(ctx, acc, collections.Counter(res["stats"]))
