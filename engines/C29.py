"""C29 - Chunked encoding respects limits and partitions the token stream.

spec -> impl: ChunksRef.tla is the window contract (DESIGN B.2); Chunks.tla is a state machine that builds
every conforming window sequence, model-checked against the contract and against the closed-form
decidable-domain test (Satisfiable).  TLC enumerates the requests (n tokens, pair / first-sequence length,
max_chunk_len incl. None and limits below the special-token overhead, overlap incl. >= window, CLS, SEP);
vh-text chunks replays each on Tokenizer::encode_chunks (byte-level BPE and WordPiece models, texts of
distinct letters); Trace_Chunks maps every returned chunk to a window of the full encoding and evaluates
the contract clauses.  Requests for which no window sequence can satisfy the contract are recorded only."""
import json
import os
import sys

import vlib

sys.path.insert(0, os.path.dirname(os.path.abspath(__file__)))
import _textlib as textlib  # noqa: E402

SPEC = "text/Trace_Chunks"
CFG = "text/Trace_Chunks.cfg"
KEY = ["model", "n", "n1", "pair", "cls", "sep", "limit", "ov"]


def run(ctx):
    ctx.build(["vh-text"])
    if ctx.replay:
        return replay(ctx)
    ctx.tlc_mc("text/MC_Chunks", "text/MC_Chunks_mc.cfg" if ctx.quick else "text/MC_Chunks_mc_thorough.cfg",
               workers=4 if ctx.quick else 8, timeout=2400)
    vec = ctx.path("requests.jsonl")
    open(vec, "w").close()
    n = textlib.mc_and_generate(ctx, "text/MC_Chunks",
                                "text/MC_Chunks_gen_quick.cfg" if ctx.quick else "text/MC_Chunks_gen_thorough.cfg",
                                vec, workers=4, timeout=1800)
    trace = ctx.path("chunks.ndjson")
    ctx.harness("vh-text", ["chunks", "--cases", vec, "--out", trace])
    res = textlib.trace_sharded(ctx, SPEC, CFG, trace, shard_lines=60000, parallel=4)
    if not ctx.quick:
        textlib.binding_self_test(ctx, SPEC, CFG, trace, drop_last_chunk, {"pred": "coverage"})
    finish(ctx, trace, res, n, True)


def drop_last_chunk(r):
    if r.get("ev") == "ret" and r.get("out") == "ok" and len(r.get("chunks", [])) >= 2:
        r["chunks"].pop()
        return True
    return False


def finish(ctx, trace, res, nreq, exhaustive):
    def nontrivial(r):  # more than one chunk is needed and some window sequence satisfies the contract
        oh = (1 if r["cls"] else 0) + ((2 if r["pair"] else 1) if r["sep"] else 0)
        cap = r["n"] if r["limit"] < 0 else r["limit"] - oh - (r["n1"] if r["pair"] else 0)
        return r["sat"] and 0 < cap < r["n"]

    total, distinct, dnt, samples = vlib.scan_cases(trace, KEY, nontrivial)
    st = res["stats"]
    ctx.cov["evaluations"] = st.get("judged", 0)
    ctx.cov["distinct_nontrivial"] = dnt
    ctx.cov["traces_validated_against_impl"] = total
    ctx.cov["requests_generated_by_tlc"] = nreq
    ctx.cov["trace_stats"] = st
    ctx.cov["notes"].append(
        "%d requests are outside the decidable domain (more than one window needed and overlap >= window: no window "
        "sequence satisfies the property); recorded, not judged; the code panicked (assert overlap < chunk_size) on %d of them"
        % (st.get("undecidable_not_judged", 0), st.get("undecidable_panicked", 0)))
    if st.get("pair_empty_second_drops_first"):
        ctx.cov["notes"].append(
            "not judged (the contract is applied to the second sequence of a pair, DESIGN B.2): for %d pair requests with an "
            "empty second sequence encode_chunks returns no chunk at all, so the first sequence appears in no chunk"
            % st["pair_empty_second_drops_first"])
    ctx.add_samples(samples)
    ctx.judge(res["bad"], "vh-text chunks", SPEC, CFG,
              case_lookup=lambda rec: rec.get("case"), badtotal=res["badtotal"])
    ctx.finish(
        rule="cases = (request enumerated by TLC) x (model: byte-level BPE without merges, WordPiece); distinct by "
             "(model, n, n1, pair, cls, sep, limit, overlap); non-trivial = satisfiable and more than one window is needed",
        assumptions=["content tokens are distinct letters, one token per letter (BPE without merges / WordPiece with "
                     "single-letter words), so a chunk's window is located by its first content token",
                     "for pairs the contract is applied to the second sequence, the complete first sequence being "
                     "required in every chunk (DESIGN Appendix B.2)",
                     "requests for which no window sequence satisfies the contract are not judged"],
        exhaustive=exhaustive)


def replay(ctx):
    case = ctx.replay["case"]
    vec = ctx.path("requests.jsonl")
    with open(vec, "w") as f:
        f.write(json.dumps({k: case[k] for k in ("n", "n1", "pair", "cls", "sep", "limit", "ov", "sat", "ref")}) + "\n")
    trace = ctx.path("chunks.ndjson")
    ctx.harness("vh-text", ["chunks", "--cases", vec, "--out", trace, "--models", case["model"]])
    res = ctx.tlc_trace(SPEC, CFG, trace)
    finish(ctx, trace, res, 1, False)
