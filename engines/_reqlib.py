"""Shared by C22 and C26: run the requests harness and judge one property's predicates."""
import json
import vlib


def validate(ctx, traces, prop, engine):
    from concurrent.futures import ThreadPoolExecutor
    with ThreadPoolExecutor(max_workers=3) as ex:
        results = list(ex.map(lambda t: ctx.tlc_trace("graph/Trace_Requests", "graph/Trace_Requests.cfg", t, timeout=3000), traces))
    stats = {"calls": 0, "invalid_calls": 0, "cache_hits": 0, "cache_misses": 0}
    for res in results:
        mine = [b for b in res["bad"] if b["sig"].get("prop") == prop]
        other = [b for b in res["bad"] if b["sig"].get("prop") != prop]
        ctx.judge(mine, engine, "graph/Trace_Requests", "graph/Trace_Requests.cfg")
        for b in other:
            ctx.cov["notes"].append("predicate of %s failed in this trace (decided by that property's check): %s x%d" % (
                b["sig"].get("prop"), json.dumps(b["sig"], sort_keys=True), b.get("count", 1)))
        for k in stats:
            stats[k] += res["stats"].get(k, 0)
    return stats


def scan(traces):
    """distinct calls (api, class, ins ids, outs ids); returns total, distinct, samples."""
    seen = set()
    total = 0
    samples = []
    for t in traces:
        for line in open(t):
            if '"ev":"call"' not in line:
                continue
            r = json.loads(line)
            total += 1
            key = (r["api"], r["class"], tuple((i["id"], i["dtype"], tuple(i["shape"])) for i in r["ins"]), tuple(r["outs"]))
            if key not in seen:
                seen.add(key)
                if len(samples) < 3:
                    samples.append({"api": r["api"], "class": r["class"], "ins": [[i["id"], i["dtype"], i["shape"]] for i in r["ins"]], "outs": r["outs"]})
    return total, len(seen), samples
