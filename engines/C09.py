"""C09 - Layout transformations match a reference array model.

Abstract model (TensorStore.tla): a tensor is shape + row-major elements; every operation is defined index-wise as a
gather of source coordinates (NumPy slicing, permute, broadcast, reshape, squeeze, insert/remove axis, merge_axes,
split, clip_dim, append, to_contiguous, copy/map, observers to_vec/iter/copy_into_slice).

1. TLC (MC_TensorStore): the LayoutOps transcription of rten's stride arithmetic refines the abstract model for every
   contiguous tensor of rank<=3 x every menu operation (and all 2-operation chains in the thorough tier); the code-shaped
   acceptance tests agree with the model's definedness except for documented errors; fast and index-by-index
   evaluations of the model agree.
2. spec -> impl: TLC (-simulate) emits chains of 4 operations; vh-tensor layout applies them to real Tensor<i32>
   marker tensors on 5 source layouts (contiguous, column-major, gapped, offset slice, broadcast) and logs after each
   step the outcome, shape and logical elements (read by explicit indexing).  impl -> spec: seeded chains on larger
   shapes (rank <= 5).
3. Trace_TensorStore recomputes the abstract result of every step and compares."""
import concurrent.futures
import json
import os
import random
import re
import sys
import time

import vlib

SPEC = "tensor/MC_TensorStore"
TSPEC = "tensor/Trace_TensorStore"
TCFG = "tensor/Trace_TensorStore.cfg"
_STR = r'"((?:[^"\\]|\\.)*)"'


def simulate_chains(ctx, outfile, num, seed, workers=4, timeout=1200):
    """TLC as behaviour generator in simulation mode: random chains of MaxOps operations; the invariants
    (Refines) are checked along every simulated behaviour."""
    rc, out, dt = ctx._tlc(SPEC, "tensor/MC_TensorStore_sim.cfg", workers, timeout, heap="6g",
                           extra=["-simulate", "num=%d" % num, "-depth", "6", "-seed", str(seed)])
    bad = "is violated" in out or "Error:" in out
    chains = sorted({vlib.tla_unescape(m.group(1)).replace("\n", " ") for m in re.finditer(r'<<"REPLAY", %s>>' % _STR, out)})
    m = None
    for m in re.finditer(r"(\d+) states checked", out):
        pass
    checked = int(m.group(1)) if m else 0
    ctx.cov["mc_runs"].append({"spec": SPEC, "cfg": "tensor/MC_TensorStore_sim.cfg", "role": "generator (simulate)",
                               "behaviours": len(chains), "states_checked": checked, "ok": not bad, "wall_s": round(dt, 1)})
    ctx.cov["transitions"] += checked
    ctx.log("TLC simulate: %d distinct chains, %d states checked, ok=%s, %.1fs" % (len(chains), checked, not bad, dt))
    if bad or not chains:
        sys.stdout.write(re.sub(r'<<"REPLAY".*\n', "", out)[-4000:])
        raise vlib.ToolError("TLC simulation of %s failed (rc=%s)" % (SPEC, rc))
    with open(outfile, "w") as f:
        f.write("\n".join(chains) + "\n")
    return chains


def drift_lines(out):
    sigs = {}
    for m in re.finditer(r'<<"DRIFTSIG", %s, (\d+)>>' % _STR, out):
        sigs[vlib.tla_unescape(m.group(1))] = int(m.group(2))
    first = {}
    for m in re.finditer(r'<<"DRIFTCASE", %s, %s>>' % (_STR, _STR), out):
        first[json.dumps(json.loads(vlib.tla_unescape(m.group(1))), sort_keys=True)] = vlib.tla_unescape(m.group(2))[:260]
    return sigs, first


def validate(ctx, chunks, per_chain, nrandom, jobs, only=None):
    def one(i_f):
        i, f = i_f
        time.sleep(0.45 * i)
        trace = ctx.path("layout_%d.ndjson" % i)
        seed = ctx.seed * 1000 + i
        args = ["layout", "--out", trace, "--per-chain", per_chain, "--random", nrandom]
        if f:
            args += ["--chains", f]
        if only:
            seed, cid = only
            args += ["--only-case", cid]
        cur = ctx.path("current_l%d.json" % i)
        try:
            ctx.harness("vh-tensor", args, env={"VERIF_SEED": str(seed), "VERIF_CURRENT": cur})
        except vlib.ToolError as ex:
            last = open(cur).read()[:400] if os.path.exists(cur) else "?"
            raise vlib.ToolError("%s; case being run: %s" % (ex, last))
        res = ctx.tlc_trace(TSPEC, TCFG, trace, timeout=3000, heap="4g")
        res["chunk"] = {"seed": seed, "chains": f, "per_chain": per_chain, "random": nrandom}
        return trace, res
    with concurrent.futures.ThreadPoolExecutor(max_workers=jobs) as ex:
        return list(ex.map(one, list(enumerate(chunks))))


def run(ctx):
    ctx.build(["vh-tensor"])
    if ctx.replay:
        return replay(ctx)
    q = ctx.quick
    # 1. refinement model checking
    ctx.tlc_mc(SPEC, "tensor/MC_TensorStore_q1.cfg" if q else "tensor/MC_TensorStore_t1.cfg", workers=8, timeout=2400,
               label="every contiguous tensor x every menu operation: LayoutOps transcription refines the abstract model; "
                     "acceptance = definedness modulo documented errors; fast = index-wise evaluation (also on every result)")
    if not q:
        ctx.tlc_mc(SPEC, "tensor/MC_TensorStore_t2.cfg", workers=8, timeout=3000,
                   label="all chains of two menu operations, rank<=2 sizes 0..3")
    # 2. chains: TLC simulation
    chains_file = ctx.path("chains_all.jsonl")
    chains = simulate_chains(ctx, chains_file, 40 if q else 400, ctx.seed % 100000)
    rnd = random.Random(ctx.seed)
    want = 1800 if q else 40000
    if len(chains) > want:
        chains = rnd.sample(chains, want)
    ctx.cov["chains_replayed"] = len(chains)
    jobs = 4
    nchunks = jobs if q else 8
    files = []
    for i in range(nchunks):
        p = ctx.path("chains_%d.jsonl" % i)
        with open(p, "w") as f:
            f.write("\n".join(chains[i::nchunks]) + "\n")
        files.append(p)
    results = validate(ctx, files, 2, 150 if q else 2500, jobs)
    finish(ctx, results)


def finish(ctx, results):
    merged, drift_sigs, drift_first = {}, {}, {}
    total = dnt = 0
    seen = set()
    for trace, res in results:
        cur = None

        def close(cur):
            nonlocal dnt
            if cur is None:
                return
            key = json.dumps(cur, sort_keys=True)
            if key in seen:
                return
            seen.add(key)
            # non-trivial: source has >= 2 elements and at least two operations returned a result
            if cur["n"] >= 2 and sum(1 for o in cur["ops"] if o[1] == "ok") >= 2:
                dnt += 1
                if dnt % 701 == 1:
                    ctx.add_samples([cur])
        with open(trace) as f:
            for line in f:
                r = json.loads(line)
                if r["ev"] == "case":
                    close(cur)
                    total += 1
                    n = 1
                    for s in r["shape"]:
                        n *= s
                    cur = {"source": r["source"], "shape": r["shape"], "n": n, "ops": []}
                else:
                    cur["ops"].append([r["op"]["op"], r["outcome"], r["op"]["args"] if r["op"]["args"] else r["op"]["items"]])
        close(cur)
        for b in res["bad"]:
            b = dict(b)
            b["rec"] = dict(b["rec"], chunk=res["chunk"])
            key = json.dumps(b["sig"], sort_keys=True)
            if key in merged:
                merged[key]["count"] += b.get("count", 1)
            else:
                merged[key] = b
        sigs, first = drift_lines(res["out"])
        for k, v in sigs.items():
            drift_sigs[k] = drift_sigs.get(k, 0) + v
        drift_first.update({k: v for k, v in first.items() if k not in drift_first})
        for k in ("steps", "ok_steps", "undefined_noop_on_empty"):
            ctx.cov[k] = ctx.cov.get(k, 0) + res["stats"].get(k, 0)
    for k, v in sorted(drift_sigs.items()):
        ctx.drift("%s count=%d first=%s" % (k, v, drift_first.get(json.dumps(json.loads(k), sort_keys=True), "")[:200]))
    ctx.judge(list(merged.values()), "vh-tensor layout", TSPEC, TCFG, case_lookup=lambda rec: None)
    ctx.cov["evaluations"] = total
    ctx.cov["distinct_nontrivial"] = dnt
    ctx.cov["traces_validated_against_impl"] = total
    ctx.finish(
        rule="case = (operation chain, source layout): TLC-simulated chains of 4 menu operations on tensors of rank<=3 sizes 0..3, each on 2 of 5 "
             "source layouts, plus seeded chains of 1-5 operations on shapes of rank<=5 (<=600 elements); distinct by (source, shape, op sequence "
             "with arguments and outcomes); non-trivial = source has >= 2 elements and >= 2 operations returned a result",
        assumptions=["elements are observed by explicit indexing (TensorView::get); shape() is trusted",
                     "an error/panic is accepted as 'reports an error' for every operation (the statement allows it); errors on calls the "
                     "model defines and rten does not document are listed as DRIFT",
                     "merge_axes: any consecutive-merge of the shape with unchanged row-major elements conforms",
                     "a successful call the model rejects is a violation only if it returns elements (empty results are DRIFT)"],
        exhaustive=False)


def replay(ctx):
    rec = ctx.replay["record"]
    f = ctx.path("replay_chain.jsonl")
    with open(f, "w") as fh:
        fh.write(json.dumps({"shape": rec["source"]["shape"], "ops": rec["ops"]}) + "\n")
    def one():
        trace = ctx.path("layout_0.ndjson")
        ctx.harness("vh-tensor", ["layout", "--out", trace, "--chains", f, "--per-chain", 1, "--source", rec["source"]["source"]])
        res = ctx.tlc_trace(TSPEC, TCFG, trace, timeout=600, heap="4g")
        res["chunk"] = {}
        return trace, res
    finish(ctx, [one()])
