"""C33 - Samplers choose only valid candidates.

Samplers.tla states the contracts (ArgMax returns an id of a maximal score; Multinomial returns only
candidate ids whose score is not -inf; two samplers with the same seed return the same sequence for
the same sequence of inputs).  MC_Samplers checks the contracts' sanity over a small input space and
emits every vector of it; vh-gen drives the real samplers over those and over seeded inputs in the
property's domain (dense/sparse, -inf entries also first, ties, single candidates, vocabulary-sized
vectors) with many draws per case; Trace_Samplers judges every returned id and the seed clause.
Controlled draws: the harness scans fastrand seeds (2^22 quick / 2^24 thorough) for those whose first
f32 draw is extreme (the largest land in the rounding gap above the f32 sum of the probabilities, the
smallest on the first candidate) plus ordinary ones, and draws once per seed from a fresh
Multinomial::with_seed(seed) over candidate sets of sizes 15,16,17,31,32,33,255,256,257,4096,65528
(,65536) -- dense and sparse ids, -inf candidates first, in the middle and as a tail of every length
0..20, equal / nearly equal / spread / huge-spread (denormal and zero probabilities) / tied scores;
the draw's bit pattern is logged and TLC judges that every id returned is a candidate with non-zero
probability."""
import json
import os
import sys
from concurrent.futures import ThreadPoolExecutor

import vlib

sys.path.insert(0, os.path.dirname(os.path.abspath(__file__)))
import _genlib  # noqa: E402

SPEC = "gen/Trace_Samplers"
CFG = "gen/Trace_Samplers.cfg"


def run(ctx):
    ctx.level = "exploration"
    ctx.build(["vh-gen"])
    if ctx.replay:
        return replay(ctx)
    vec = ctx.path("vec.jsonl")
    nvec = _genlib.mc_and_generate(ctx, "gen/MC_Samplers", "gen/MC_Samplers_%d.cfg" % (3 if ctx.quick else 4), vec,
                                   workers=4, timeout=1200, label="contract sanity + enumeration of small vectors")
    lines = open(vec).read().splitlines()
    nchunks = 4 if ctx.quick else 8
    nseeded = 240 if ctx.quick else 2400
    draws = 10000 if ctx.quick else 20000
    per = (len(lines) + nchunks - 1) // nchunks
    jobs = []
    for i in range(nchunks):
        vp = ctx.path("vec_%03d.jsonl" % i)
        with open(vp, "w") as f:
            f.write("\n".join(lines[i * per:(i + 1) * per]) + "\n")
        tp = ctx.path("samp_%03d.ndjson" % i)
        jobs.append((vp, tp, i))

    def harness(job):
        vp, tp, i = job
        ctx.harness("vh-gen", ["samplers", "--vectors", vp, "--seeded", nseeded // nchunks, "--draws", draws,
                               "--salt", i, "--out", tp], timeout=3000)
        return tp

    with ThreadPoolExecutor(max_workers=4) as ex:
        traces = list(ex.map(harness, jobs))
    # controlled draws over block-/vector-width sized candidate sets
    sized = ctx.path("samp_sized.ndjson")
    ctx.harness("vh-gen", ["samplers", "--sized", ctx.tier, "--out", sized], timeout=3000)
    traces.append(sized)
    res = _genlib.parallel_trace(ctx, SPEC, CFG, traces, workers=4)
    if not ctx.quick:
        # a dedicated seeded trace (both samplers, small draws) is corrupted for the binding self-test
        stp = ctx.path("samp_selftest.ndjson")
        ctx.harness("vh-gen", ["samplers", "--seeded", 160, "--draws", 500, "--salt", 99, "--out", stp])
        self_test(ctx, stp)
    finish(ctx, traces, res, nvec)


def finish(ctx, traces, res, nvec):
    total = dnt = 0
    seen = set()
    by = {}
    sizes = {}
    nseeds = 0
    maxlen = 0
    for t in traces:
        with open(t) as f:
            for line in f:
                if '"ev":"case"' not in line:
                    continue
                r = json.loads(line)
                total += 1
                by[r["sampler"] + "/" + r["src"]] = by.get(r["sampler"] + "/" + r["src"], 0) + 1
                maxlen = max([maxlen] + [len(v["key"]) for v in r["vs"]])
                key = json.dumps([r["sampler"], r["dense"], r["seed"], r["vs"]], sort_keys=True)
                if key in seen:
                    continue
                seen.add(key)
                if any(len(v["key"]) >= 2 for v in r["vs"]):
                    dnt += 1
                    if dnt % 499 == 1 and max(len(v["key"]) for v in r["vs"]) <= 12:
                        ctx.add_samples([{k: r[k] for k in ("sampler", "dense", "seed", "vs", "rounds", "draws")}])
                if r["src"] == "sized":
                    sizes[len(r["vs"][0]["key"])] = sizes.get(len(r["vs"][0]["key"]), 0) + 1
                    nseeds = max(nseeds, len(r["useeds"]))
    ctx.cov["evaluations"] = total
    ctx.cov["distinct_nontrivial"] = dnt
    ctx.cov["traces_validated_against_impl"] = total
    ctx.cov["cases_by_sampler_and_source"] = by
    ctx.cov["vectors_generated_by_tlc"] = nvec
    ctx.cov["longest_vector"] = maxlen
    ctx.cov["controlled_draw_cases_by_size"] = {str(k): v for k, v in sorted(sizes.items())}
    ctx.cov["controlled_draw_seeds_per_case"] = nseeds
    ctx.cov["trace_stats"] = res["stats"]
    ctx.cov["draws_judged"] = res["stats"].get("draws", 0)
    if res["stats"].get("panics", 0):
        ctx.drift("%d sampler call(s) panicked on a non-empty input (the statement does not mention panics; not judged)"
                  % res["stats"]["panics"])
    if res["stats"].get("cases_outside_domain", 0):
        ctx.cov["notes"].append("%d case(s) outside the property's domain were recorded but not judged" % res["stats"]["cases_outside_domain"])
    ctx.judge(res["bad"], "vh-gen samplers", SPEC, CFG, case_lookup=lambda rec: rec.get("case"), badtotal=res["badtotal"])
    ctx.finish(
        rule="cases = (sampler, seed, dense|sparse, 1-3 input vectors); every vector over {-inf,-1,-0,+0,1,30} up to length "
             "3 (quick) / 4 (thorough) is enumerated by TLC; seeded cases: lengths 1..48 and vocabulary-sized 1000..7000, -inf "
             "entries (also first), ties, all-tied, nearly equal scores, single candidates; per multinomial case 8-16 rounds "
             "recorded as sequences for two same-seed samplers plus 1e3..4e5 further draws per vector recorded as "
             "(id, count) tables; controlled-draw cases: sizes 15..65536 around block widths, -inf head / middle / tail of length "
             "0..20, one draw per scanned seed (extreme and ordinary first draws); distinct by (sampler, dense, seed, vectors); non-trivial = some vector has >= 2 entries",
        assumptions=[
            "domain = the property's quantifier: non-empty, distinct ids, no NaN, no +inf; multinomial: at least one score > -inf",
            "'non-zero probability' is read mathematically: only a -inf score has probability zero (a finite score that "
            "underflows to 0 in f32 softmax is not flagged)",
            "-0.0 and +0.0 count as equal scores for arg-max",
            "the seed clause is checked on two Multinomial::with_seed(s) instances fed the same input sequence (first 8-16 rounds)",
            "the multinomial clause is evidence for the draws made only: a draw that never happened is not judged",
            "for a controlled draw only the essential clause is judged (candidate with non-zero probability); which candidate's "
            "cumulative interval contains u is not recomputed in TLA+ (the probabilities are internal f32 softmax values)",
        ],
        exhaustive=False)


def self_test(ctx, trace):
    recs = _genlib.split_cases(trace, 2000)

    def foreign_id(rs):
        for r in rs:
            if r["ev"] == "pick" and r["outcome"] == "ok":
                r["ids"].append(999999)
                r["counts"].append(1)
                return True
        return False

    def other_seq(rs):
        case = None
        for r in rs:
            if r["ev"] == "case":
                case = r
            if r["ev"] == "seq" and case["sampler"] == "multinomial" and len(r["b"]) >= 2:
                ids = case["vs"][0]["ids"]
                keys = case["vs"][0]["key"]
                alt = [i for i, k in zip(ids, keys) if k != -2139095041 and i != r["b"][0]]
                if alt:
                    r["b"][0] = alt[0]
                    return True
        return False

    def non_max(rs):
        case = None
        for r in rs:
            if r["ev"] == "case":
                case = r
            if r["ev"] == "pick" and case["sampler"] == "argmax" and r["outcome"] == "ok":
                v = case["vs"][0]
                nk = [0 if k == -1 else k for k in v["key"]]
                low = [i for i, k in zip(v["ids"], nk) if k < max(nk)]
                if low:
                    r["ids"] = [low[0]]
                    return True
        return False

    def masked(rs):
        case = None
        for r in rs:
            if r["ev"] == "case":
                case = r
            if r["ev"] == "pick" and case["sampler"] == "multinomial" and r["outcome"] == "ok":
                v = case["vs"][r["i"] - 1]
                m = [i for i, k in zip(v["ids"][1:], v["key"][1:]) if k == -2139095041]
                if m and m[0] not in r["ids"]:
                    r["ids"].append(m[0])
                    r["counts"].append(1)
                    return True
        return False

    _genlib.self_test(ctx, SPEC, CFG, recs, [
        ("a returned id that is not a candidate", foreign_id, {"check": "candidate", "cls": "not_a_candidate"}),
        ("second same-seed sampler returns a different first id", other_seq, {"check": "determinism"}),
        ("arg-max returns a non-maximal id", non_max, {"sampler": "argmax", "check": "candidate", "cls": "not_maximal"}),
        ("multinomial returns a -inf entry (not the first)", masked, {"check": "candidate", "cls": "zero_probability_other_entry"}),
    ])


def replay(ctx):
    case = ctx.replay["case"]
    cf = ctx.path("case.json")
    with open(cf, "w") as f:
        json.dump(case, f)
    trace = ctx.path("samp_replay.ndjson")
    ctx.harness("vh-gen", ["samplers", "--out", trace, "--only-case-file", cf])
    res = ctx.tlc_trace(SPEC, CFG, trace)
    finish(ctx, [trace], _genlib.merge([res]), 0)
