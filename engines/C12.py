"""C12 - Declared operator output types match produced types.

impl -> spec: `vh-ops relational types` asks every catalogue operator (objects decoded by the real
ONNX loader; attribute variants for Cast, CastLike, EyeLike, ConstantOfShape, SequenceEmpty,
QuantizeLinear, Multinomial ...) for its output-type rules (Operator::output_types) and runs it with
inputs of every element type (f32, i32, i8, u8; sequences thereof); graph level, it records the operator
nodes of small multi-operator models with their rules, the labels computed by the real infer_shapes(),
the run-time type of every value, the types the optimised model shows on surviving values
(Model::node_info().dtype()) and the outputs of the optimised model (CastElimination relies on the labels).
A second graph-level family takes every catalogue operator that can have several outputs (TopK, Split,
DynamicQuantizeLinear, Dropout, GRU, LSTM, BatchNormalization, Attention, MultiHeadAttention,
GroupQueryAttention, Skip(Simplified)LayerNormalization) and every non-empty subset of used output slots
(omitted outputs = empty ONNX output names, earlier-omitted/later-used and trailing omissions, the latter
also as a shorter output list), feeds each used output through an Identity so that its only label is the
one graph-level inference attaches, and judges declared vs produced type per used output VALUE; patterns
the loader or operator rejects are outcomes.  TypeRules.tla defines Predict(rule, input types) and the propagation over a graph; TLC
evaluates them on the trace (Trace_Relational.tla) and compares with the produced types."""
import collections
import json

import vlib

SPEC = "ops/Trace_Relational"
CFG = "ops/Trace_Relational.cfg"


def scan(trace):
    ops = collections.OrderedDict()
    seen = set()
    total = nontrivial = 0
    samples = []
    cur = None
    with open(trace) as f:
        for line in f:
            r = json.loads(line)
            if r["ev"] == "case":
                cur = r
                total += 1
                continue
            o = ops.setdefault(cur["key"], {"op": cur["op"], "runs": 0, "ok": 0, "combos_ok": {}, "rules": None})
            o["runs"] += 1
            if cur["prop"] == "C12":
                o["rules"] = [x["kind"] + (":" + x["vt"] if x["kind"] == "fixed" else ":%d" % x["idx"]) for x in cur["rules"]] if cur["has_rules"] else None
            if r["outcome"] != "ok":
                continue
            o["ok"] += 1
            if cur["prop"] == "C12":
                combo = ",".join(cur["in_types"]) + " -> " + ",".join(v["dtype"] for v in r["outputs"])
            elif cur["key"].startswith("omit:"):
                combo = "%s: %d values" % (cur["cls"], len(r["actual"]))
            else:
                combo = "%d values" % len(r["actual"])
            o["combos_ok"][combo] = o["combos_ok"].get(combo, 0) + 1
            key = cur["key"] + "|" + combo
            # distinct = (operator variant, input type combination); non-trivial = the run succeeded
            # and at least one produced output has a declared rule
            if key not in seen:
                seen.add(key)
                if cur["prop"] == "C12G" or (cur["has_rules"] and cur["rules"] and r["outputs"]):
                    nontrivial += 1
                    if len(samples) < 4 and (len(samples) < 3 or cur["prop"] == "C12G"):
                        c = dict(cur)
                        c.pop("seq", None)
                        samples.append({"case": c, "produced": [v["dtype"] for v in r["outputs"]] if cur["prop"] == "C12" else r["actual"]})
    return ops, total, nontrivial, samples


def run(ctx):
    ctx.level = "exploration"
    ctx.build(["vh-ops"])
    ctx.tlc_mc("ops/MC_TypeRules", "ops/MC_TypeRules.cfg", workers=2, timeout=600, label="rule semantics sanity")
    trace = ctx.path("types.ndjson")
    if ctx.replay:
        key = ctx.replay["record"]["case"]["key"]
        ctx.harness("vh-ops", ["relational", "types", "--out", trace, "--cases", 20, "--omit-reps", 4, "--only", "graph:" if key.startswith("graph:") else key])
    elif ctx.quick:
        ctx.harness("vh-ops", ["relational", "types", "--out", trace, "--cases", 6, "--graph-rounds", 8])
    else:
        ctx.harness("vh-ops", ["relational", "types", "--out", trace, "--cases", 150, "--graph-rounds", 200, "--omit-reps", 12], timeout=3000)
    res = ctx.tlc_trace(SPEC, CFG, trace, timeout=3000, heap="12g")
    st = res["stats"]
    ops, total, nontrivial, samples = scan(trace)
    ctx.cov["evaluations"] = st.get("runs", 0)
    ctx.cov["distinct_nontrivial"] = nontrivial
    ctx.cov["traces_validated_against_impl"] = total
    ctx.cov["successful_runs_judged"] = st.get("compared", 0)
    ctx.cov["runs_failed_nothing_required"] = st.get("ref_failed", 0)
    ctx.cov["outputs_with_prediction"] = st.get("typed_outputs", 0)
    ctx.cov["outputs_without_prediction"] = st.get("untyped_outputs", 0)
    ctx.cov["graph_values_judged"] = st.get("graph_values", 0)
    omit = {k: o for k, o in ops.items() if k.startswith("omit:")}
    ctx.cov["omitted_output_operator_variants"] = len(omit)
    ctx.cov["omitted_output_patterns_run_ok"] = sum(len(o["combos_ok"]) for o in omit.values())
    ctx.cov["omitted_output_cases"] = sum(o["runs"] for o in omit.values())
    ctx.cov["operators_exercised"] = len(ops)
    ctx.cov["operators_without_rules"] = sorted(k for k, o in ops.items() if o["rules"] is None and not k.startswith("graph:"))
    ctx.cov["operators"] = ops
    ctx.add_samples(samples, cap=4)
    ctx.judge(res["bad"], "vh-ops relational types", SPEC, CFG, badtotal=res["badtotal"])
    ctx.finish(
        rule="case = (catalogue operator variant incl. type-changing attribute variants, primary input element type in "
             "{f32,i32,i8,u8}, seeded inputs) or (multi-operator model, inputs); distinct by (operator variant, input type "
             "combination -> produced types) resp. (operator variant, used-output pattern); non-trivial = the run succeeded and an output has a declared rule "
             "(graph level: the model ran and every produced value was typed at run time)",
        assumptions=["an element-type combination is 'accepted' when Operator::run succeeds on it; rejected combinations carry no claim",
                     "subgraph operators (If, Loop) are not run at operator level (their output types come from the subgraph)"],
        exhaustive=False)
