"""C23 - The buffer pool hands out each buffer once with adequate capacity.

BufferPool.tla is model-checked (2 threads, mixed element types, capacities around the threshold,
all interleavings); the same machine generates schedules that are replayed on a real BufferPool from
real threads; free-running stress runs add unconstrained interleavings. In both cases the pool's own
events (hook H4, emitted under the pool mutex) and the holders' events are validated by TLC
(Trace_BufferPool.tla): exclusive ownership, adequate capacity and layout, freed/reused exactly once.
A third mode runs without the event sink (which serialises the threads): free-running rounds of
alloc / capacity check / write pattern / verify / add on a pool pre-filled with interleaved buffers
(Trace_PoolRace.tla); BufferPoolSplit.tla shows at design level why search and removal must be one
critical section (Atomic = FALSE: TLC finds the stale-index interleaving). The thorough tier also
carries the two invariants beyond TLC's bounds: BufferPoolInd.tla is BufferPool.tla without history and
bounds; TLC checks that BufferPool refines it, Apalache that IndInv is inductive (base + step)."""
import vlib


def run(ctx):
    ctx.build(["vh-graph"])
    if ctx.replay:
        return replay(ctx)
    ctx.tlc_mc("pool/MC_BufferPool", "pool/MC_BufferPool.cfg", workers=6, timeout=1500)
    hist_all = ctx.path("sched_all.jsonl")
    nh = ctx.tlc_generate("pool/MC_BufferPool", "pool/MC_BufferPool_gen4.cfg" if ctx.quick else "pool/MC_BufferPool_gen5.cfg",
                          hist_all, workers=6, timeout=2400)
    hist = ctx.path("sched.jsonl")
    n = vlib.sample_lines(hist_all, hist, 12000 if ctx.quick else 250000, ctx.seed)
    t1 = ctx.path("pool_replay.ndjson")
    ctx.harness("vh-graph", ["pool", "--hist", hist, "--out", t1])
    t2 = ctx.path("pool_stress.ndjson")
    ctx.harness("vh-graph", ["pool-stress", "--out", t2, "--cases", 300 if ctx.quick else 6000, "--threads", 3, "--ops", 40])
    t3 = ctx.path("pool_stress8.ndjson")
    ctx.harness("vh-graph", ["pool-stress", "--out", t3, "--cases", 60 if ctx.quick else 1500, "--threads", 8, "--ops", 60],
                env={"VERIF_SEED": str(ctx.seed + 1)})
    # free-running contention without the sink: result-based (capacity, exclusive contents, panics)
    t4 = ctx.path("pool_race.ndjson")
    ctx.harness("vh-graph", ["pool-race", "--out", t4, "--cases", 8 if ctx.quick else 40, "--rounds", 150000 if ctx.quick else 1000000])
    res = ctx.tlc_trace("pool/Trace_PoolRace", "pool/Trace_PoolRace.cfg", t4, timeout=600, ncases_key="race_case")
    ctx.judge(res["bad"], "vh-graph pool-race", "pool/Trace_PoolRace", "pool/Trace_PoolRace.cfg")
    ctx.cov["race_rounds"] = res["stats"].get("rounds", 0)
    if not ctx.quick:
        ctx.tlc_mc("pool/MC_BufferPoolSplit", "pool/MC_BufferPoolSplit.cfg", workers=6, timeout=1500,
                   label="alloc as one critical section (Find immediately followed by Take): handed-out buffers fit, no stale index")
        info, out = ctx.tlc_mc("pool/MC_BufferPoolSplit", "pool/MC_BufferPoolSplit_broken.cfg", workers=2, timeout=600, expect_ok=False,
                               label="alloc split in two critical sections: TLC must find the stale-index interleaving")
        if "is violated" not in out:
            raise vlib.ToolError("BufferPoolSplit with Atomic = FALSE did not produce the expected counterexample")
        # beyond TLC's bounds: BufferPool refines the unbounded, history-free BufferPoolInd (TLC), whose
        # IndInv (ids closed /\ ExclusiveOwnership /\ PoolOnlyLarge) Apalache shows inductive
        ctx.tlc_mc("pool/MC_BufferPoolRef", "pool/MC_BufferPoolRef.cfg", workers=6, timeout=1500,
                   label="refinement BufferPool => BufferPoolInd!Spec (identity mapping) and IndInv in every reachable state")
        ctx.apalache_inductive("pool/MC_BufferPoolInd", "ConstInit", "Init", "IndInit", "IndInv", timeout=1500,
                               label="IndInv inductive for any number of operations; 3 threads, pre-state with <= 5 buffers ever created")
        ctx.apalache_step_must_fail("pool/MC_BufferPoolInd", ["BufferPoolInd", "MC_BufferPoolInd"], "ConstInit", "IndInit", "IndInv", "BufferPoolInd",
                                    "  /\\ pool' = SubSeq(pool, 1, i - 1) \\o SubSeq(pool, i + 1, Len(pool))\n  /\\ UNCHANGED <<bufs, freed>>",
                                    "  /\\ UNCHANGED <<pool, bufs, freed>>", label="a pool hit leaves the buffer in the pool")
        ctx.apalache_step_must_fail("pool/MC_BufferPoolInd", ["BufferPoolInd", "MC_BufferPoolInd"], "ConstInit", "IndInit", "IndInv", "BufferPoolInd",
                                    "IF LayoutBytes(bufs[b]) >= MinSize", "IF LayoutBytes(bufs[b]) >= MinSize - 64",
                                    label="add keeps buffers up to 64 bytes below the threshold")
    ctx.cov["schedules_generated_by_tlc"] = nh
    ctx.cov["schedules_replayed"] = n
    judge(ctx, [t1, t2, t3])


def judge(ctx, traces):
    from concurrent.futures import ThreadPoolExecutor
    with ThreadPoolExecutor(max_workers=3) as ex:
        results = list(ex.map(lambda t: ctx.tlc_trace("pool/Trace_BufferPool", "pool/Trace_BufferPool.cfg", t, timeout=3000), traces))
    hits = 0
    for res in results:
        ctx.judge(res["bad"], "vh-graph pool", "pool/Trace_BufferPool", "pool/Trace_BufferPool.cfg")
        hits += res["stats"].get("hits", 0)
    total = 0
    distinct = set()
    samples = []
    import json
    for t in traces:
        cur = []
        for line in open(t):
            if '"ev":"case"' in line:
                if cur:
                    distinct.add(tuple(cur))
                    if len(samples) < 2 and len(cur) >= 4:
                        samples.append(list(cur)[:12])
                cur = []
                total += 1
            elif '"ev":"h_' in line or '"ev":"pool_alloc"' in line:
                r = json.loads(line)
                cur.append("%s:t%d:%s" % (r["ev"], r["t"], r.get("req", r.get("cap"))))
        if cur:
            distinct.add(tuple(cur))
    ctx.cov["evaluations"] = total
    ctx.cov["distinct_nontrivial"] = len([c for c in distinct if any(x.startswith("pool_alloc") for x in c)])
    ctx.cov["traces_validated_against_impl"] = total
    ctx.cov["pool_hits_observed"] = hits
    ctx.add_samples(samples)
    ctx.finish(
        rule="case = one pool lifetime (replayed TLC schedule or free-running stress run); distinct by the sequence of (event, thread, size); non-trivial = at least one allocation went through the pool's critical section",
        assumptions=["hook H4 emits pool events while the pool mutex is held; holder events are emitted before a buffer is given up and after it is received",
                     "buffer identity = address (two residues); an address is reused only after the free event of its previous owner"],
        exhaustive=False)


def replay(ctx):
    raise vlib.ToolError("C23 violations come from concurrent traces; re-run the tier with the recorded seed %s" % ctx.replay.get("seed"))
