"""C11 - Symbolic expression simplification and bounds are sound.

spec -> impl: TLC (specs/shape/MC_SymExprGen) enumerates expression trees - every tree of depth <= 1
over the full leaf set, (thorough) every tree of depth <= 2 over the reduced leaf set {-2,0,1,x,z}, pseudo-random trees
of depth <= 2 / <= 3 - the harness `vh-shape symexpr` builds each as a real SymExpr and records what
simplify(), range(), is_positive() return for every subexpression; specs/shape/Trace_SymExpr evaluates
original and simplified trees under ALL symbol assignments in -3..4 (>= 0 for positive symbols) with the
checked-arithmetic reference semantics of specs/lib/SymExpr.tla and judges the property."""
import concurrent.futures
import json
import time

import vlib

GEN = "shape/MC_SymExprGen"
TRACE_SPEC = "shape/Trace_SymExpr"
TRACE_CFG = "shape/Trace_SymExpr.cfg"
# several single-worker TLC processes run side by side: keep their GC thread pools small
JENV = {"JAVA_TOOL_OPTIONS": "-Xss1g -Dtlc2.tool.queue.IStateQueue=StateDeque -XX:ParallelGCThreads=2"}


def gen_cfg(ctx, name, mode, depth, count, leaves, seed):
    p = ctx.path(name + ".cfg")
    with open(p, "w") as f:
        f.write('CONSTANTS Mode = "%s" Depth = %d Count = %d LeafSet = "%s" Seed = %d\n'
                "INIT Init\nNEXT Next\nINVARIANT Emit\nCHECK_DEADLOCK FALSE\n" % (mode, depth, count, leaves, seed))
    return p


def generate(ctx):
    """Returns the list of (label, file, count) of TLC-generated tree files."""
    seed = ctx.seed % 1000000007
    plan = [("d1_full", "all", 1, 0, "full", 4)]
    if ctx.quick:
        plan += [("r2", "rand", 2, 600, "full", 1), ("r3", "rand", 3, 1800, "full", 1)]
    else:
        plan += [("d2_mid", "all", 2, 0, "mid", 4),
                 ("r2", "rand", 2, 40000, "full", 1), ("r3", "rand", 3, 60000, "full", 1)]
    out = []

    def one(item):
        label, mode, depth, count, leaves, workers = item
        cfg = gen_cfg(ctx, "gen_" + label, mode, depth, count, leaves, seed + depth)
        f = ctx.path("trees_%s.jsonl" % label)
        n = ctx.tlc_generate(GEN, cfg, f, workers=workers, timeout=3000, heap="4g")
        return (label, f, n)

    # the generators are independent TLC runs; run them side by side (<= 4 at a time)
    with concurrent.futures.ThreadPoolExecutor(max_workers=3) as ex:
        futs = []
        for it in plan:
            futs.append(ex.submit(one, it))
            time.sleep(0.2)
        for fu in futs:
            out.append(fu.result())
    return out


def validate(ctx, prefix, shards):
    """Run the trace spec on every shard (in parallel) and merge the results."""
    def one(k):
        return ctx.tlc_trace(TRACE_SPEC, TRACE_CFG, "%s.%d.ndjson" % (prefix, k), timeout=6000, heap="3g" if ctx.quick else "6g", env=JENV)

    results = []
    with concurrent.futures.ThreadPoolExecutor(max_workers=4) as ex:
        futs = []
        for k in range(shards):
            futs.append(ex.submit(one, k))
            time.sleep(0.3)
        for fu in futs:
            results.append(fu.result())
    bad, badtotal, stats = [], 0, {}
    for r in results:
        bad += r["bad"]
        badtotal += r["badtotal"]
        for k, v in r["stats"].items():
            stats[k] = stats.get(k, 0) + v
    # one entry per signature, counts summed over shards
    merged = {}
    for b in bad:
        key = json.dumps(b["sig"], sort_keys=True)
        if key in merged:
            merged[key]["count"] += b.get("count", 1)
        else:
            merged[key] = b
    return list(merged.values()), len(merged), stats


def depth(t):
    return 0 if not t["a"] else 1 + max(depth(c) for c in t["a"])


def show(t):
    if t["op"] == "Val":
        return str(t["v"])
    if t["op"] == "Var":
        return t["s"] + ("+" if t["pos"] else "")
    return "%s(%s)" % (t["op"], ", ".join(show(c) for c in t["a"]))


def has_sym(t):
    return t["op"] == "Var" or any(has_sym(c) for c in t["a"])


def finish(ctx, prefix, shards, bad, nsig, stats, gens):
    seen = set()
    total = dnt = 0
    samples = []
    for k in range(shards):
        with open("%s.%d.ndjson" % (prefix, k)) as f:
            for line in f:
                if '"ev":"case"' not in line:
                    continue
                r = json.loads(line)
                total += 1
                key = json.dumps(r["e"], sort_keys=True)
                if key in seen:
                    continue
                seen.add(key)
                if r["e"]["a"] and has_sym(r["e"]):
                    dnt += 1
                    if len(samples) < 3 and depth(r["e"]) >= 2:
                        samples.append({"tree": show(r["e"]), "json": r["e"]})
    ctx.cov["evaluations"] = total
    ctx.cov["distinct_nontrivial"] = dnt
    ctx.cov["distinct_trees"] = len(seen)
    ctx.cov["traces_validated_against_impl"] = total
    ctx.cov["trees_generated_by_tlc"] = {label: n for label, _, n in gens}
    ctx.cov["spec_counters"] = stats
    ctx.cov["notes"].append(
        "spec_counters (measured by Trace_SymExpr): cases; vacuous = trees undefined under every assignment; "
        "envs = assignments quantified over; nodes = subexpressions judged for range/is_positive; changed = "
        "simplify() returned a different tree; panics = calls that panicked (no result, not judged); simp_ovf = "
        "trees whose simplified form overflows i32 where the original does not (not judged, reading R2), "
        "simp_ovf_diff = those where the wrapping evaluation of a release build then differs from the original value")
    ctx.add_samples(samples)
    ctx.judge(bad, "vh-shape symexpr", TRACE_SPEC, TRACE_CFG, case_lookup=lambda rec: rec.get("e"), badtotal=nsig)
    ctx.finish(
        rule="cases = expression trees generated by TLC: all trees of depth <= 1 over leaves {-2,0,1,3,i32::MAX,i32::MIN+1,"
             "x+,y+,z} and 9 operators; thorough: all trees of depth <= 2 over leaves {-2,0,1,x+,z}; plus seeded pseudo-random "
             "trees of depth <= 2 and <= 3 over the full leaf set; each judged by TLC under every assignment of its symbols in "
             "-3..4 (0..4 for positive symbols). distinct = distinct trees; non-trivial = has an operator and a symbol",
        assumptions=["harness profile = release build without overflow checks (as rten ships); panics are recorded, not judged",
                     "symbol values are quantified over -3..4 only; constants include the i32 extremes",
                     "readings R1-R4 at the head of specs/shape/Trace_SymExpr.tla (Broadcast contract, overflow inside the "
                     "simplified expression not judged)",
                     "trusted: TLC, its Json module, the tree <-> SymExpr conversion of the harness (the spec re-checks that the "
                     "annotated tree equals the generated tree)"],
        exhaustive=False)


def run(ctx):
    ctx.build(["vh-shape"])
    if ctx.replay:
        return replay(ctx)
    # 1. the reference arithmetic itself is model-checked against independent characterisations
    ctx.tlc_mc("shape/MC_SymExprLib", "shape/MC_SymExprLib.cfg", workers=2, timeout=900, heap="3g")
    # 2. TLC generates the trees
    gens = generate(ctx)
    allf = ctx.path("trees.jsonl")
    with open(allf, "w") as out:
        for _, f, _ in gens:
            with open(f) as g:
                out.write(g.read())
    # 3. replay on the real code
    shards = 4
    prefix = ctx.path("symexpr")
    ctx.harness("vh-shape", ["symexpr", "--trees", allf, "--out", prefix, "--shards", shards])
    # 4. TLC judges
    bad, nsig, stats = validate(ctx, prefix, shards)
    finish(ctx, prefix, shards, bad, nsig, stats, gens)


def replay(ctx):
    tree = ctx.replay["case"]
    f = ctx.path("trees.jsonl")
    with open(f, "w") as out:
        out.write(json.dumps(tree) + "\n")
    prefix = ctx.path("symexpr")
    ctx.harness("vh-shape", ["symexpr", "--trees", f, "--out", prefix, "--shards", 1])
    bad, nsig, stats = validate(ctx, prefix, 1)
    finish(ctx, prefix, 1, bad, nsig, stats, [("replay", f, 1)])
