"""C16 - Matrix multiplication is correct for every kernel and shape.

1. GemmBlocking.tla (the loop nest of gemm_impl: parallel column blocks, sequential depth blocks,
   parallel row blocks, tiles; gemv path; K = 0 / empty exits) is model-checked for all
   M, N, K in 0..MaxDim x beta class x bias kind with the two parallel loops interleaved; seeded
   mutants of the loop nest must violate the invariants (thorough tier).
2. impl -> spec: vh-gemm f32 runs every f32 kernel of the host (generic, FMA, AVX-512) through
   gemm / gemm_uninit / batched_gemm_uninit on integer-valued data (boundary shapes around the
   real tile / block sizes, random shapes <= 300, strided layouts, alpha / beta incl. 0, -1, 2, 1/2,
   row / column bias, prepacked A / B, im2col B, NaN-poisoned output) with 16 and with 1 rayon
   thread; Trace_Gemm.tla recomputes alpha*A*B + beta*C + bias in TLA+ (GemmRef.tla: direct for
   small products, closed form over prefix sums for structured large operands) and judges every call."""
import json
import os

import vlib

SPEC = "gemm/Trace_Gemm"
CFG = "gemm/Trace_Gemm.cfg"
JOPTS = {"JAVA_TOOL_OPTIONS": "-Xss1g -Dtlc2.tool.queue.IStateQueue=StateDeque -XX:ParallelGCThreads=4"}
KEYF = ["kernel", "api", "threads", "m", "n", "k", "fam", "alpha2", "beta2", "bias_kind",
        "a_form", "b_form", "a_layout", "b_layout"]
MUTANTS = ["m_beta", "m_bias", "m_gemv", "m_nc"]


def model_check(ctx):
    cfg = "gemm/MC_GemmBlocking_quick.cfg" if ctx.quick else "gemm/MC_GemmBlocking_thorough.cfg"
    ctx.tlc_mc("gemm/MC_GemmBlocking", cfg, workers=4, timeout=3000, label="loop nest of gemm_impl")
    if not ctx.quick:
        # vacuity guard: every seeded defect of the loop nest must violate an invariant
        for m in MUTANTS:
            info, out = ctx.tlc_mc("gemm/MC_GemmBlocking", "gemm/MC_GemmBlocking_%s.cfg" % m, workers=4,
                                   timeout=1200, expect_ok=False, label="seeded mutant " + m)
            if "is violated" not in out:
                raise vlib.ToolError("seeded mutant %s of GemmBlocking was not rejected by the invariants" % m)
            ctx.cov["notes"].append("GemmBlocking mutant %s rejected by the invariants" % m)


def run(ctx):
    ctx.build(["vh-gemm"])
    if ctx.replay:
        return replay(ctx)
    model_check(ctx)
    if ctx.quick:
        plan = [("16", None, 72), ("1", "1", 24)]
    else:
        plan = [("16", None, 1300), ("1", "1", 250)]
    names = json.loads(ctx.harness("vh-gemm", ["f32-kernels"]).strip().splitlines()[-1])
    ctx.cov["kernels"] = names
    bad, traces, totals = [], [], {}
    for tag, nthreads, n in plan:
        env = {"RAYON_NUM_THREADS": nthreads} if nthreads else {}
        # quick: one trace (one JVM) per thread count; thorough: one per kernel to bound TLC's memory
        groups = [None] if ctx.quick else names
        for kname in groups:
            trace = ctx.path("f32_t%s_%s.ndjson" % (tag, kname or "all"))
            args = ["f32", "--out", trace, "--cases", n] + (["--kernel", kname] if kname else [])
            ctx.harness("vh-gemm", args, env=env)
            res = ctx.tlc_trace(SPEC, CFG, trace, timeout=6000, env=JOPTS)
            bad += res["bad"]
            traces.append(trace)
            for k, v in res["stats"].items():
                totals[k] = totals.get(k, 0) + v
    if not ctx.quick or os.environ.get("VERIF_SELFTEST"):
        self_test(ctx, traces[0])
    finish(ctx, traces, bad, totals)


def finish(ctx, traces, bad, totals):
    total = distinct = dnt = 0
    for t in traces:
        a, b, c, samples = vlib.scan_cases(t, KEYF, lambda r: r["m"] * r["n"] * r["k"] > 0)
        total += a
        distinct += b
        dnt += c
        ctx.add_samples(samples)
    ctx.cov["evaluations"] = total
    ctx.cov["distinct_nontrivial"] = dnt
    ctx.cov["traces_validated_against_impl"] = total
    ctx.cov["spec_counters"] = totals
    ctx.judge(bad, "vh-gemm f32", SPEC, CFG, case_lookup=lambda rec: {"id": rec.get("id"), "threads": rec.get("threads")})
    ctx.finish(
        rule="one evaluation = one GEMM call member (kernel, api, shape, operand forms/layouts, alpha, beta, bias) whose "
             "complete output is compared in TLA+; distinct by (kernel, api, threads, m, n, k, family, alpha, beta, bias kind, "
             "operand forms, layouts); non-trivial = M*N*K > 0",
        assumptions=[
            "data are integer-valued (|x| <= 8 dense, <= 18 structured) so every f32 partial sum is exact; rounding behaviour on "
            "arbitrary floats is not judged",
            "large products (M*N*K > 3*10^4) use structured operands (A rows = scaled interval indicators, B of rank 2) whose "
            "product has a closed form; a misplaced, missing or doubled tile / depth block still changes it",
            "tile events inside gemm_impl are not observed (no hook): the loop nest is model-checked at design level and the "
            "implementation is bound through inputs/outputs",
            "Arm and Wasm kernels cannot run on this host"],
        exhaustive=False)


def self_test(ctx, trace):
    """Binding self-test: corrupt one recorded output element and one recorded input element of
    passing cases; Trace_Gemm must flag both (pred = value)."""
    lines = open(trace).read().splitlines()
    out = []
    done_out = done_in = False
    cur = None
    want = []
    for ln in lines[:400]:
        r = json.loads(ln)
        if r.get("ev") == "case":
            cur = r
            if (not done_in and r["fam"] == "dense" and r["nmem"] == 1 and r["alpha2"] != 0
                    and r["m"] * r["n"] * r["k"] > 0 and r["a_form"] == "unpacked"):
                r["a"][0] += 1
                if any(x != 0 for x in r["b"][:r["n"]]):
                    done_in = True
                    want.append(r["id"])
                else:
                    r["a"][0] -= 1
        elif r.get("ev") == "ret" and not done_out and r["outcome"] == "ok" and len(r["out2"]) > 3 \
                and cur is not None and cur["id"] not in want and cur["nmem"] == 1:
            r["out2"][len(r["out2"]) // 2] += 2
            done_out = True
            want.append(r["id"])
        out.append(json.dumps(r))
    p = ctx.path("f32_selftest.ndjson")
    with open(p, "w") as f:
        f.write("\n".join(out) + "\n")
    res = ctx.tlc_trace(SPEC, CFG, p, env=JOPTS)
    flagged = {b["rec"].get("id") for b in res["bad"] if b["sig"].get("pred") == "value"}
    missing = [w for w in want if w not in flagged]
    if len(want) < 2 or missing:
        raise vlib.ToolError("binding self-test failed: corrupted cases %s, flagged %s" % (want, sorted(flagged)))
    ctx.cov["notes"].append("binding self-test: corrupted output element and corrupted input element were both rejected (%s)" % want)
    ctx.cov["trace_runs"][-1]["role"] = "binding self-test (corrupted trace, expected to be rejected)"


def replay(ctx):
    rp = ctx.replay
    case = rp.get("case") or {}
    cid = case.get("id") or rp["record"].get("id")
    threads = case.get("threads") or rp["record"].get("threads") or 16
    # id = "<kernel>:t<threads>:<idx>.<member>"
    kernel, _, rest = cid.split(":")
    idx = int(rest.split(".")[0])
    env = {"RAYON_NUM_THREADS": "1"} if int(threads) == 1 else {}
    trace = ctx.path("f32_replay.ndjson")
    ctx.harness("vh-gemm", ["f32", "--out", trace, "--cases", idx + 1, "--kernel", kernel, "--only-id", cid], env=env)
    res = ctx.tlc_trace(SPEC, CFG, trace, env=JOPTS)
    finish(ctx, [trace], res["bad"], res["stats"])
