"""C03 - Execution plans are valid, complete and minimal.

spec -> impl: TLC enumerates graphs with the GraphGen state machine (exhaustive BFS in small bounds,
-simulate for larger ones); the harness builds each as a real rten Graph (rten::verif hook, dummy
operators) and asks Graph::execution_plan for every request (all input subsets x output subsets x
PlanOptions, plus malformed requests) in child processes with a timeout; Trace_Planner judges every
answer with the Planner contract (ValidPlan, Minimal, MustErr, completeness, termination)."""
import json
import vlib


def gen(ctx, cfg, name, extra=None, spec="graph/GraphGen"):
    out = ctx.path(name)
    ctx.tlc_generate(spec, cfg, out, workers=1 if extra else 4, timeout=1500, extra=extra)
    # de-duplicate (simulation prints a graph once per visited final state)
    seen, lines = set(), []
    for l in open(out):
        if l not in seen:
            seen.add(l)
            lines.append(l)
    open(out, "w").writelines(lines)
    return out, len(lines)


def run(ctx):
    ctx.build(["vh-graph"])
    if ctx.replay:
        return replay(ctx)
    # second build with overflow checks and debug assertions (the planner has debug_assert!s; a panic
    # where the contract demands a plan or an error is a violation in the builds that compile them in)
    ctx.build(["vh-graph"], profile="checked")
    traces = []
    # (1) exhaustive: one operator, 2 values + 1 constant, every input/output shape incl. omitted
    #     inputs, repeated inputs, unused outputs, self-dependencies, captures: all requests.
    g1, n1 = gen(ctx, "graph/GraphGen_q1.cfg", "graphs_q1.jsonl")
    t1 = ctx.path("plan_q1.ndjson")
    ctx.harness("vh-graph", ["plan", "--graphs", g1, "--out", t1, "--sample-requests", 5 if ctx.quick else 0])
    traces.append(t1)
    # (2) exhaustive: two operators over three values (chains, diamonds, cycles, shared producers)
    g2, n2 = gen(ctx, "graph/GraphGen_q2.cfg", "graphs_q2.jsonl")
    t2 = ctx.path("plan_q2.ndjson")
    ctx.harness("vh-graph", ["plan", "--graphs", g2, "--out", t2, "--sample-requests", 3 if ctx.quick else 60])
    traces.append(t2)
    for tag, gfile, k in (("q1", g1, 5 if ctx.quick else 0), ("q2", g2, 3 if ctx.quick else 60)):
        tc = ctx.path("plan_%s_checked.ndjson" % tag)
        ctx.harness("vh-graph", ["plan", "--graphs", gfile, "--out", tc, "--sample-requests", k], profile="checked")
        traces.append(tc)
    # (3) random larger graphs from TLC simulation of the same generator
    num = 1500 if ctx.quick else 40000
    g3, n3 = gen(ctx, "graph/GraphGenSim.cfg", "graphs_sim.jsonl", spec="graph/GraphGenSim",
                 extra=["-simulate", "num=%d" % num, "-depth", "8", "-seed", str(ctx.seed)])
    t3 = ctx.path("plan_sim.ndjson")
    ctx.harness("vh-graph", ["plan", "--graphs", g3, "--out", t3, "--sample-requests", 4 if ctx.quick else 10])
    traces.append(t3)
    # (4) random graphs whose operators have up to 3 inputs (repeated operands next to other dependencies)
    g4, n4 = gen(ctx, "graph/GraphGenSim3.cfg", "graphs_sim3.jsonl", spec="graph/GraphGenSim",
                 extra=["-simulate", "num=%d" % num, "-depth", "8", "-seed", str(ctx.seed + 1)])
    t4 = ctx.path("plan_sim3.ndjson")
    ctx.harness("vh-graph", ["plan", "--graphs", g4, "--out", t4, "--sample-requests", 4 if ctx.quick else 10])
    traces.append(t4)
    ctx.cov["graphs"] = {"one_op_exhaustive": n1, "two_op_exhaustive": n2, "simulated": n3, "simulated_3_inputs": n4}
    if not ctx.quick:
        # implementation-shaped transcription of planner.rs (visit stack, active set, sort_plan frontier)
        # model-checked against the contract incl. termination on every 1-operator graph x request
        ctx.tlc_mc("graph/PlannerImpl", "graph/PlannerImpl1.cfg", workers=8, timeout=3000, heap="12g",
                   label="transcription of create_plan/visit/sort_plan satisfies the Planner contract and terminates")
        # ... and on every 2-operator graph over 3 values of the plain family (no absent operands, no captures):
        # 12 402 graphs x 144 requests, ~9.5M states
        ctx.tlc_mc("graph/PlannerImpl", "graph/PlannerImpl2.cfg", workers=8, timeout=5400, heap="24g",
                   label="transcription satisfies the contract and terminates on every plain 2-operator graph")
    judge(ctx, traces)


def judge(ctx, traces):
    total = dn = 0
    from concurrent.futures import ThreadPoolExecutor
    with ThreadPoolExecutor(max_workers=4) as ex:
        results = list(ex.map(lambda t: ctx.tlc_trace("graph/Trace_Planner", "graph/Trace_Planner.cfg", t, timeout=3000), traces))
    for res in results:
        ctx.judge(res["bad"], "vh-graph plan", "graph/Trace_Planner", "graph/Trace_Planner.cfg",
                  case_lookup=lambda rec: rec)
        total += res["stats"].get("requests", 0)
        ctx.cov.setdefault("plans", 0)
        ctx.cov["plans"] += res["stats"].get("plans", 0)
        ctx.cov.setdefault("errors", 0)
        ctx.cov["errors"] += res["stats"].get("errors", 0)
    # distinct non-trivial: distinct (graph, request) whose answer was a plan with >= 1 operator
    seen = set()
    samples = []
    for t in traces:
        g = None
        req = None
        for line in open(t):
            r = json.loads(line)
            if r["ev"] == "graph":
                g = json.dumps(r["g"], sort_keys=True)
            elif r["ev"] == "case":
                req = r
            elif r["ev"] == "res" and r["res"]["kind"] == "plan" and len(r["res"]["plan"]) >= 1:
                key = (g, tuple(req["ins"]), tuple(req["outs"]), req["allow"], req["capsavail"])
                if key not in seen:
                    seen.add(key)
                    if len(samples) < 3:
                        samples.append({"graph": json.loads(g), "ins": req["ins"], "outs": req["outs"],
                                        "allow_missing": req["allow"], "captures_available": req["capsavail"],
                                        "plan": r["res"]["plan"]})
    ctx.cov["evaluations"] = total
    ctx.cov["distinct_nontrivial"] = len(seen)
    ctx.cov["traces_validated_against_impl"] = total
    ctx.add_samples(samples)
    ctx.finish(
        rule="cases = (TLC-generated graph) x (request); distinct by (graph, request, options); non-trivial = the planner returned a plan with >= 1 operator",
        assumptions=["dummy operators (flags only) built through the rten::verif hook behave like real ones for planning",
                     "per-chunk timeout of 8 s for 5000 planning calls is read as non-termination"],
        exhaustive=not ctx.quick)


def replay(ctx):
    rec = ctx.replay["record"]
    g = rec["graph"]
    kinds = g["kind"]
    nv = sum(1 for k in kinds if k == "value")
    nc = sum(1 for k in kinds if k == "const")
    ops = []
    for i, k in enumerate(kinds):
        if k == "op":
            ops.append({"ins": g["ins"][i], "outs": g["outs"][i], "caps": sorted(g["caps"][i]), "inplace": False})
    gf = ctx.path("graph.jsonl")
    with open(gf, "w") as f:
        f.write(json.dumps({"nv": nv, "nc": nc, "ops": ops, "captured": sorted(g["captured"])}) + "\n")
    t = ctx.path("plan.ndjson")
    ctx.harness("vh-graph", ["plan", "--graphs", gf, "--out", t])
    judge(ctx, [t])
