"""C37 - Block-quantized matrix multiplication equals dequantize-then-multiply.

impl -> spec: vh-gemm bq drives (a) rten_gemm::BlockQuantizedGemm in Float and Int8 compute modes,
(b) every f32 GemmExecutor kernel with a GemmInputB::BlockQuantized operand, (c) MatMulNBits
single-operator ONNX models through rten::Model, on exact data (power-of-two scales, integer-valued
activations; for Int8 every activation block has maximum 127*2^k so its dynamic quantization is exact).
Trace_BlockQuant.tla dequantizes the 4-bit blocks and multiplies in TLA+ (BlockQuant.tla) and demands
equality."""
import json
import os

import vlib

SPEC, CFG = "gemm/Trace_BlockQuant", "gemm/Trace_BlockQuant.cfg"
JOPTS = {"JAVA_TOOL_OPTIONS": "-Xss1g -Dtlc2.tool.queue.IStateQueue=StateDeque -XX:ParallelGCThreads=4"}
KEYF = ["api", "mode", "kernel", "variant", "batch", "m", "n", "k", "bs", "bias_kind", "a_unit_log2", "se"]


def run(ctx):
    ctx.level = "exploration"
    ctx.build(["vh-gemm"])
    if ctx.replay:
        return replay(ctx)
    n = 90 if ctx.quick else 2500
    chunk = 90 if ctx.quick else 250
    bad, traces, totals = [], [], {}
    # the harness is deterministic per case index; split into chunks to bound TLC's memory
    full = ctx.path("bq_all.ndjson")
    ctx.harness("vh-gemm", ["bq", "--out", full, "--cases", n])
    lines = open(full).read().splitlines()
    head, body = lines[0], lines[1:]
    per = chunk * 2
    for ci in range(0, len(body), per):
        trace = ctx.path("bq_%d.ndjson" % (ci // per))
        with open(trace, "w") as f:
            f.write("\n".join([head] + body[ci:ci + per]) + "\n")
        res = ctx.tlc_trace(SPEC, CFG, trace, timeout=9000, env=JOPTS)
        bad += res["bad"]
        traces.append(trace)
        for k, v in res["stats"].items():
            totals[k] = totals.get(k, 0) + v
    if not ctx.quick or os.environ.get("VERIF_SELFTEST"):
        self_test(ctx, traces[0])
    finish(ctx, traces, bad, totals)


def finish(ctx, traces, bad, totals):
    total = dnt = 0
    for t in traces:
        a, b, c, samples = vlib.scan_cases(t, KEYF, lambda r: r["variant"] in ("ok", "scales_1d"))
        total += a
        dnt += c
        for s in samples:
            s["se"] = s["se"][:8]
        ctx.add_samples(samples)
    ctx.cov["evaluations"] = total
    ctx.cov["distinct_nontrivial"] = dnt
    ctx.cov["traces_validated_against_impl"] = total
    ctx.cov["spec_counters"] = totals
    ctx.judge(bad, "vh-gemm bq", SPEC, CFG, case_lookup=lambda rec: {"id": rec.get("id")})
    ctx.finish(
        rule="one evaluation = one block-quantized product (api in {BlockQuantizedGemm, GemmExecutor kernel with BlockQuantized B, "
             "MatMulNBits model}, compute mode, block size 16..256, K = 1..32 blocks, N 1..40, M, batch 1..3, scales, nibbles) whose complete "
             "output is compared in TLA+; distinct by (api, mode, kernel, variant, shapes, block size, scale exponents); non-trivial = "
             "a supported request (not one of the deliberately unsupported variants)",
        assumptions=[
            "exact data only: scales are powers of two, activations integer multiples of a power-of-two unit; 'within floating-point "
            "tolerance' is decided as exact equality there. Int8 compute is judged only on activations whose per-block maximum is 127*2^k "
            "(dynamic quantization exact); its accuracy on other activations is not judged",
            "the implementation supports only the default zero point 8 and K = blocks * block_size: an explicit zero_points input or another "
            "K is declined with an error, which is counted (declined) and not flagged",
            "BlockQuantizedGemm picks its SIMD ISA itself (AVX-512 VNNI on this host); other ISAs of that code path cannot be selected "
            "without a hook"],
        exhaustive=False)


def self_test(ctx, trace):
    """Binding self-test: corrupt one output element and one scale exponent of passing cases."""
    out, want, cur = [], [], None
    did_out = did_in = False
    for ln in open(trace).read().splitlines()[:80]:
        r = json.loads(ln)
        if r.get("ev") == "case":
            cur = r
            if not did_in and r["variant"] == "ok" and len(r["se"]) >= 2 and len(set(r["se"])) > 1 and r["api"] != "gemm":
                # swap two different scale exponents (keeps the minimum, changes the product)
                i = next(i for i in range(1, len(r["se"])) if r["se"][i] != r["se"][0])
                r["se"][0], r["se"][i] = r["se"][i], r["se"][0]
                did_in = True
                want.append(r["id"])
        elif r.get("ev") == "ret" and not did_out and r["outcome"] == "ok" and r["out"] and cur["id"] not in want:
            r["out"][0] += 1
            did_out = True
            want.append(r["id"])
        out.append(json.dumps(r))
    p = ctx.path("bq_selftest.ndjson")
    with open(p, "w") as f:
        f.write("\n".join(out) + "\n")
    res = ctx.tlc_trace(SPEC, CFG, p, env=JOPTS)
    ctx.cov["trace_runs"][-1]["role"] = "binding self-test (corrupted trace, expected to be rejected)"
    flagged = {b["rec"].get("id") for b in res["bad"] if b["sig"].get("pred") == "value"}
    # two cases with the same signature are reported as one BADCASE with count 2
    n_flagged = sum(b.get("count", 1) for b in res["bad"] if b["sig"].get("pred") == "value")
    if len(want) < 2 or not flagged or not flagged <= set(want) or n_flagged < 2:
        raise vlib.ToolError("binding self-test failed: corrupted %s, flagged %s (%d)" % (want, sorted(flagged), n_flagged))
    ctx.cov["notes"].append("binding self-test: corrupted output element and swapped scale exponents were rejected (%s)" % want)


def replay(ctx):
    rp = ctx.replay
    cid = (rp.get("case") or {}).get("id") or rp["record"].get("id")
    idx = int(cid.split(":")[1])
    trace = ctx.path("bq_replay.ndjson")
    ctx.harness("vh-gemm", ["bq", "--out", trace, "--cases", idx + 1, "--only-id", cid])
    res = ctx.tlc_trace(SPEC, CFG, trace, env=JOPTS)
    finish(ctx, [trace], res["bad"], res["stats"])
