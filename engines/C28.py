"""C28 - BPE merging matches the reference merge algorithm.

spec -> impl: Bpe.tla is the merge procedure as a state machine (action MergeStep = merge the
lowest-ranked adjacent pair present).  One TLC run model-checks its invariants (Expand(tokens) = input,
termination, terminal state = pure reference function, the two step granularities agree on well-ordered
tables) and emits one test vector per (merge table, input).  vh-text merge builds a real
rten_text::models::Bpe per table (vocabulary derived from the merges, and an explicit vocabulary whose ids are
assigned by seeded schemes over the whole u32 id space: byte tokens by value / permuted / offset by 2^8, 2^15, 2^16-1,
2^16, 2^16+1, 2^17, 2^24, 2^31 or counting down from 2^31-1 and u32::MAX; merged tokens dense, anchored at the same
values, counting down from the top, sparse random, or (k << 16) | id-of-an-alphabet-byte; ids are logged as
<<id div 2^16, id mod 2^16>> pairs), encodes
through Tokenizer::encode and logs ids and their vocabulary strings.  Trace_Bpe recomputes the reference
result in TLA+ from the logged table/input and judges ids/pieces."""
import json
import os
import sys

import vlib

sys.path.insert(0, os.path.dirname(os.path.abspath(__file__)))
import _textlib as textlib  # noqa: E402

SPEC = "text/Trace_Bpe"
CFG = "text/Trace_Bpe.cfg"


def run(ctx):
    ctx.build(["vh-text"])
    if ctx.replay:
        return replay(ctx)
    vec = ctx.path("vectors_all.jsonl")
    open(vec, "w").close()
    if ctx.quick:
        n = textlib.mc_and_generate(ctx, "text/MC_Bpe", "text/MC_Bpe_k3m2l5.cfg", vec, workers=4, timeout=900)
        bounds = "alphabet {1,2,3}: every closed table of <= 2 distinct pairs in every order x every string of length <= 5"
        exhaustive = True
        cases = vec
    else:
        n1 = textlib.mc_and_generate(ctx, "text/MC_Bpe", "text/MC_Bpe_k3m2l6.cfg", vec, workers=8, timeout=1800)
        n2 = textlib.mc_and_generate(ctx, "text/MC_Bpe", "text/MC_Bpe_k2m3l6.cfg", vec, workers=8, timeout=1800)
        n3 = textlib.mc_and_generate(ctx, "text/MC_Bpe", "text/MC_Bpe_k3m3l4wo.cfg", vec, workers=8, timeout=2400, heap="12g")
        n = n1 + n2 + n3
        bounds = ("every closed table in every order x every string, replayed completely: {1,2,3}/<=2 pairs/len<=6 (%d vectors), "
                  "{1,2}/<=3 pairs/len<=6 (%d), {1,2,3}/<=3 pairs in training order only/len<=4 (%d)" % (n1, n2, n3))
        exhaustive = True
        cases = vec
    trace = ctx.path("merge.ndjson")
    ctx.harness("vh-text", ["merge", "--cases", cases, "--out", trace])
    res = textlib.trace_sharded(ctx, SPEC, CFG, trace, shard_lines=20000 if ctx.quick else 60000, parallel=4 if ctx.quick else 6)
    if not ctx.quick:
        textlib.binding_self_test(ctx, SPEC, CFG, trace, swap_last_ids, {"vocab": "explicit", "class": "ids_not_from_vocabulary"})
    finish(ctx, trace, res, n, bounds, exhaustive)


def swap_last_ids(r):
    x = r.get("xids", [])
    if r.get("ev") == "case" and len(x) >= 2 and x[-1] != x[-2]:
        x[-1], x[-2] = x[-2], x[-1]
        return True
    return False


def finish(ctx, trace, res, nvec, bounds, exhaustive):
    for b in res["bad"]:
        if b["sig"].get("class") == "generator_mismatch":
            raise vlib.ToolError("vector carried through the harness differs from the spec's recomputation: %s" % json.dumps(b["rec"])[:400])
    total, distinct, dnt, samples = vlib.scan_cases(
        trace, ["m", "s", "alpha", "idscheme"], lambda r: len(r["one"]) < len(r["s"]))
    ctx.cov["evaluations"] = 2 * total  # explicit + derived vocabulary
    ctx.cov["distinct_nontrivial"] = dnt
    ctx.cov["traces_validated_against_impl"] = total
    ctx.cov["vectors_generated_by_tlc"] = nvec
    ctx.cov["trace_stats"] = res["stats"]
    st = res["stats"]
    if st.get("granularity_differs"):
        ctx.cov["notes"].append(
            "on %d vectors (tables that use a product before the entry that creates it) merging one occurrence per step and "
            "merging all occurrences per step give different results; either is accepted; the code matched one-per-step on %d "
            "and all-per-step on %d" % (st["granularity_differs"], st.get("differs_code_matches_one", 0),
                                       st.get("differs_code_matches_all", 0)))
    ctx.add_samples(samples)
    ctx.judge(res["bad"], "vh-text merge", SPEC, CFG, case_lookup=lambda rec: {"m": rec.get("m"), "s": rec.get("s"),
              "one": rec.get("one"), "all": rec.get("all")}, badtotal=res["badtotal"])
    ctx.finish(
        rule="cases = (merge table, input string) vectors emitted by TLC, each encoded with an explicit and a derived vocabulary; "
             "distinct by (table, input); non-trivial = at least one merge applies",
        assumptions=["merge tables hold distinct pairs and are closed (every component is a symbol or the product of an entry), "
                     "as Bpe::new requires for a vocabulary derived from the merge list",
                     "bounds: " + bounds,
                     "explicit vocabularies use seeded id schemes over the whole u32 range (offsets 2^8..2^31, 2^16 +- 1, counting down from "
                     "2^31-1 and u32::MAX, sparse random, large ids whose low 16 bits equal another token's id); the reference works on token "
                     "strings and is independent of the id assignment",
                     "symbols are mapped to ASCII bytes (4 seeded alphabets incl. non-printable bytes); ids are mapped back to "
                     "pieces through Model::get_token_str and rten_text::models::char_to_byte",
                     "where one-occurrence-per-step and all-occurrences-per-step differ (only on tables that are not in training "
                     "order) either result is accepted"],
        exhaustive=exhaustive)


def replay(ctx):
    case = ctx.replay["case"]
    vec = ctx.path("vectors.jsonl")
    with open(vec, "w") as f:
        f.write(json.dumps(case) + "\n")
    trace = ctx.path("merge.ndjson")
    ctx.harness("vh-text", ["merge", "--cases", vec, "--out", trace])
    res = ctx.tlc_trace(SPEC, CFG, trace)
    finish(ctx, trace, res, 1, "replay of one vector", False)
