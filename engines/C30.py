"""C30 - Text normalizers keep an exact offset map.

impl -> spec: vh-text normalize runs every normalizer of rten_text::normalizers (Bert incl. the no-op
configuration, lowercase, strip accents, NFC/NFD/NFKC/NFKD, Replace with seeded patterns incl. empty and
end-anchored matches) and seeded Sequence chains (nested, length 0..3) on seeded Unicode text rich in
expanding/contracting mappings.  Trace_Normalize evaluates the OffsetMap contract in TLA+: one offset per
normalized byte, normalized bytes well-formed UTF-8 (structural check), every offset a character boundary
of the source (computed from the source bytes), offsets non-decreasing.  MC_OffsetMap model-checks that the
contract composes the way Sequence composes stage maps."""
import os
import sys

import vlib

sys.path.insert(0, os.path.dirname(os.path.abspath(__file__)))
import _textlib as textlib  # noqa: E402

SPEC = "text/Trace_Normalize"
CFG = "text/Trace_Normalize.cfg"


def params(ctx):
    return (80, 40, 16) if ctx.quick else (1200, 120, 30)


def run(ctx):
    ctx.level = "exploration"
    ctx.build(["vh-text"])
    ncfg, ntext, pieces = params(ctx)
    args = ["normalize", "--configs", ncfg, "--texts", ntext, "--max-pieces", pieces]
    trace = ctx.path("normalize.ndjson")
    if ctx.replay:
        case = ctx.replay["case"]
        ctx.harness("vh-text", args + ["--out", trace, "--only", "%d,%d" % (case["ci"], case["ti"])])
        res = ctx.tlc_trace(SPEC, CFG, trace)
        return finish(ctx, trace, res)
    ctx.tlc_mc("text/MC_OffsetMap", "text/MC_OffsetMap.cfg", workers=4, timeout=900,
               label="the offset-map contract is closed under Sequence's composition where it is defined")
    ctx.harness("vh-text", args + ["--out", trace])
    res = textlib.trace_sharded(ctx, SPEC, CFG, trace, shard_lines=40000, parallel=4)
    if not ctx.quick:
        textlib.binding_self_test(ctx, SPEC, CFG, trace, unsort_offsets, {"pred": "monotone"})
    finish(ctx, trace, res)


def unsort_offsets(r):
    o = r.get("offsets", [])
    if r.get("ev") == "ret" and r.get("out") == "ok" and len(o) >= 2 and o[-1] > o[0]:
        o[0], o[-1] = o[-1], o[0]
        return True
    return False


def finish(ctx, trace, res):
    def nontrivial(r):  # the source has multi-byte characters (offsets can land inside a character)
        return any(b >= 128 for b in r["src"])

    total, distinct, dnt, samples = vlib.scan_cases(trace, ["ci", "ti", "cfg", "src"], nontrivial)
    st = res["stats"]
    ctx.cov["evaluations"] = st.get("judged", 0)
    ctx.cov["distinct_nontrivial"] = dnt
    ctx.cov["traces_validated_against_impl"] = total
    ctx.cov["trace_stats"] = st
    ctx.add_samples([{k: (v if k != "src" else bytes(v).decode("utf-8", "replace")) for k, v in s.items()} for s in samples])
    ctx.judge(res["bad"], "vh-text normalize", SPEC, CFG, case_lookup=lambda rec: rec.get("case"), badtotal=res["badtotal"])
    ctx.finish(
        rule="cases = (seeded normalizer configuration, seeded text); distinct by (configuration, text); non-trivial = the "
             "source text contains multi-byte characters",
        assumptions=["input text is well-formed UTF-8 (a Rust String); the end of the input counts as a character boundary",
                     "Err(NormalizeError) results are counted, not judged; a panic is judged (no normalized text, no map)",
                     "this tree has no Prepend normalizer; Replace with pattern ^ stands in for it"],
        exhaustive=False)
