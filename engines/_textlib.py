"""Helpers shared by the rten-text engines (C27-C30): one TLC run that both model-checks the
invariants and emits test vectors; sharded (parallel) trace validation."""
import concurrent.futures
import os
import re
import sys
import time

import vlib


def mc_and_generate(ctx, spec, cfg, outfile, workers=4, timeout=1800, heap="8g", tag="REPLAY", label=None):
    """Model-check `spec` with `cfg` (all invariants incl. the Emit generator invariant) in ONE TLC run:
    the run must complete cleanly (else tool error) and its REPLAY lines are appended to `outfile`."""
    rc, out, dt = ctx._tlc(spec, cfg, workers, timeout, heap=heap)
    gen, distinct = ctx._stats(out)
    ok = rc == 0 and "Model checking completed. No error has been found." in out
    n = 0
    pat = re.compile(r'<<"%s", %s>>' % (tag, vlib._STR))
    with open(outfile, "a") as f:
        for m in pat.finditer(out):
            f.write(vlib.tla_unescape(m.group(1)).replace("\n", " ") + "\n")
            n += 1
    info = {"spec": spec, "cfg": cfg, "role": "model_checking+generator", "behaviours": n,
            "states_generated": gen, "distinct_states": distinct, "ok": ok, "wall_s": round(dt, 1)}
    if label:
        info["label"] = label
    ctx.cov["mc_runs"].append(info)
    ctx.cov["states"] += distinct
    ctx.cov["transitions"] += gen
    ctx.log("TLC mc+gen %s/%s: %d distinct states, %d vectors, ok=%s, %.1fs" % (
        spec, os.path.basename(cfg), distinct, n, ok, dt))
    if not ok:
        sys.stdout.write(re.sub(r'<<"%s".*\n' % tag, "", out)[-5000:])
        raise vlib.ToolError("TLC model checking of %s with %s did not complete cleanly (rc=%s)" % (spec, cfg, rc))
    if n == 0:
        raise vlib.ToolError("TLC generator %s/%s produced no vectors" % (spec, cfg))
    return n


def split_trace(trace, shard_lines, boundary='"ev":"case"'):
    """Split an NDJSON trace into shards of about shard_lines lines, cutting only before a case record."""
    shards = []
    cur = None
    n = 0
    with open(trace) as f:
        for line in f:
            if cur is None or (n >= shard_lines and boundary in line):
                if cur:
                    cur.close()
                p = "%s.%03d" % (trace, len(shards))
                shards.append(p)
                cur = open(p, "w")
                n = 0
            cur.write(line)
            n += 1
    if cur:
        cur.close()
    return shards


def trace_sharded(ctx, spec, cfg, trace, shard_lines=100000, parallel=4, timeout=3000, heap="6g"):
    """Validate a long trace in shards (each shard is an independent sequence of cases).
    Returns the merged result dict of ctx.tlc_trace."""
    shards = split_trace(trace, shard_lines)
    if len(shards) <= 1:
        return ctx.tlc_trace(spec, cfg, trace, timeout=timeout, heap=heap)

    def one(i):
        time.sleep(0.15 * (i % parallel))  # distinct metadir names
        return ctx.tlc_trace(spec, cfg, shards[i], timeout=timeout, heap=heap)

    with concurrent.futures.ThreadPoolExecutor(max_workers=parallel) as ex:
        results = list(ex.map(one, range(len(shards))))
    merged = {"bad": [], "badtotal": 0, "accepted": True, "stats": {}, "events": 0}
    seen = {}
    for r in results:
        for b in r["bad"]:
            import json
            k = json.dumps(b["sig"], sort_keys=True)
            if k in seen:
                seen[k]["count"] += b.get("count", 1)
            else:
                seen[k] = b
                merged["bad"].append(b)
        merged["events"] += r["events"]
        for k, v in r["stats"].items():
            merged["stats"][k] = merged["stats"].get(k, 0) + v
    merged["badtotal"] = len(merged["bad"])
    for p in shards:
        os.remove(p)
    return merged


def binding_self_test(ctx, spec, cfg, trace, mutate, expect, max_lines=4000):
    """Binding self-test (DESIGN 2.4): corrupt one recorded field in a prefix of the real trace and require the
    trace spec to reject it with a failed predicate matching `expect` (a dict of signature fields).
    `mutate(record) -> bool` edits a parsed record in place and returns True once it has corrupted one."""
    import json
    # find the first record that can be corrupted; keep up to max_lines lines before it (from a case
    # boundary) and the lines after it up to max_lines more, cutting at a case boundary
    out = []
    done = False
    after = 0
    with open(trace) as f:
        for line in f:
            is_case = '"ev":"case"' in line
            if not done:
                if is_case and len(out) >= max_lines:
                    out = []
                r = json.loads(line)
                if mutate(r):
                    done = True
                    line = json.dumps(r, separators=(",", ":")) + "\n"
            else:
                after += 1
                if after >= 200 and is_case:
                    break
            out.append(line)
    if not done:
        ctx.cov["binding_self_test"] = {"ran": False, "why": "no record suitable for corruption in the trace prefix"}
        return
    p = trace + ".selftest"
    with open(p, "w") as f:
        f.writelines(out)
    # results of this run are not judged; only the rejection is recorded
    res = ctx.tlc_trace(spec, cfg, p)
    ctx.cov["trace_runs"][-1]["role"] = "binding self-test (one corrupted field)"
    hit = [b["sig"] for b in res["bad"] if all(b["sig"].get(k) == v for k, v in expect.items())]
    ctx.cov["binding_self_test"] = {"ran": True, "corrupted_fields": 1, "rejected": bool(hit), "signature": hit[0] if hit else None}
    os.remove(p)
    if not hit:
        raise vlib.ToolError("binding self-test: corrupted trace was not rejected with %s" % expect)
    ctx.log("binding self-test: corrupted field rejected with %s" % json.dumps(hit[0], sort_keys=True))
