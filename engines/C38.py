"""C38 - The ONNX protobuf decoder terminates and never panics.

1. ProtoReader.tla (contract variant) model-checked: for every decoder behaviour over a contract-abiding
   reader the position is monotone, accepted lengths are within the input, operations <= OpBound(n).
2. ProtoReader.tla (implementation-shaped variant, wrapping arithmetic at word size 2^4/2^5) explored by
   TLC, which prints every step that breaks the contract as a CANDIDATE (field kind, length class
   relative to the position) -> scaled to 64-bit length prefixes by the harness.
3. vh-load proto: valid ONNX documents with every length prefix replaced by the boundary classes and
   the TLC candidates, truncations, byte flips, random bytes, over-long varints, deep nesting; every
   input decoded with a tracing reader beneath the crate's LimitReader (buffer, file, sniffing) and
   black-box (parse_buf, parse_file, is_onnx_model, Model::load) in child processes.
4. Trace_Proto.tla validates the recorded trace: the ProtoContract predicates decide."""
import json
import os

import vlib

SPEC = "load/Trace_Proto"
CFG = "load/Trace_Proto.cfg"


def run(ctx):
    ctx.build(["vh-load"])
    suffix = "" if ctx.quick else "_t"
    ctx.tlc_mc("load/MC_ProtoReader", "load/MC_ProtoReader_contract%s.cfg" % suffix, workers=4, timeout=1800,
               label="contract reader: Monotone, InBounds, Linear, Terminates")
    trace = ctx.path("proto.ndjson")
    if ctx.replay:
        case = ctx.replay["case"]
        ctx.harness("vh-load", ["proto", "--out", trace, "--only-case", json.dumps(case), "--hang-samples", 1000])
        res = ctx.tlc_trace(SPEC, CFG, trace, timeout=1800)
        return finish(ctx, trace, res, 0)
    cands = ctx.path("cands.jsonl")
    ncand = ctx.tlc_generate("load/MC_ProtoReader", "load/MC_ProtoReader_impl%s.cfg" % suffix, cands,
                             workers=4, timeout=3000)
    distinct = sorted(set(open(cands).read().splitlines()))
    with open(cands, "w") as f:
        f.write("\n".join(distinct) + "\n")
    ctx.cov["candidates_from_impl_model"] = len(distinct)
    ctx.cov["candidate_prints"] = ncand
    ctx.harness("vh-load", ["proto", "--out", trace, "--cands", cands], timeout=3000)
    res = ctx.tlc_trace(SPEC, CFG, trace, timeout=3000, heap="12g")
    if not ctx.quick or os.environ.get("VERIF_SELFTEST"):
        selftest(ctx, trace)
    finish(ctx, trace, res, len(distinct))


def selftest(ctx, trace):
    """Binding self-test: corrupt recorded events of VALID inputs and require Trace_Proto to reject them."""
    groups = []  # (case record, [other records])
    with open(trace) as f:
        for line in f:
            r = json.loads(line)
            if r["ev"] == "case":
                groups.append((r, []))
            else:
                groups[-1][1].append(r)
    done = set()
    out = []
    for c, rs in groups:
        if c["gen"].startswith("valid:") and len(done) < 4:
            rs = [dict(r) for r in rs]
            ops = [r for r in rs if r["ev"] == "op" and r["p0"] != [] and not r["k"].endswith("_begin")]
            ends = [r for r in rs if r["ev"] == "end"]
            if "backwards" not in done and ops:
                ops[0]["p1"] = []          # the reader went back to offset 0
                done.add("backwards")
            elif "panic" not in done and ends:
                ends[0]["outcome"] = "panic"
                done.add("panic")
            elif "accepted" not in done and ops:
                o = [r for r in ops if r["k"] in ("skip", "bytes", "string") and r["ok"]]
                if o:
                    o[0]["len"] = [0, 0, 1]  # an accepted length of 2^30 in a small input
                    done.add("accepted")
            elif "nonlinear" not in done and ops:
                k = rs.index(ops[0])
                rs = rs[:k] + [dict(ops[0]) for _ in range(4 * c["n"] + 40)] + rs[k:]
                done.add("nonlinear")
        if c["gen"].startswith("valid:") or len(out) < 3000:
            out.append(c)
            out.extend(rs)
    st = ctx.path("selftest.ndjson")
    with open(st, "w") as f:
        for k, r in enumerate(out):
            r["seq"] = k + 1
            f.write(json.dumps(r) + "\n")
    res = ctx.tlc_trace(SPEC, CFG, st, timeout=1800)
    got = set((b["sig"]["class"], b["sig"]["cause"]) for b in res["bad"])
    want = [("position moved backwards", ""), ("panic", ""), ("overlong length accepted", "read len>remaining"),
            ("nonlinear", "")]
    missing = [w for w in want if w not in got]
    ctx.cov["binding_selftest"] = {"corruptions": sorted(done), "rejected": [list(w) for w in want if w in got]}
    if missing or len(done) < 4:
        raise vlib.ToolError("binding self-test failed: corrupted trace not rejected for %s (applied %s)" % (missing, sorted(done)))
    ctx.log("binding self-test: 4 corrupted events of valid inputs rejected by Trace_Proto")


def finish(ctx, trace, res, ncand):
    def nontrivial(r):
        return r["gen"].split(":")[0] in ("mutlen", "truncate", "pinned", "longvarint", "deepnest") or r["n"] >= 8

    total, distinct, dnt, samples = vlib.scan_cases(trace, ["gen", "lenclass", "site", "n", "b"], nontrivial)
    for s in samples:
        s.pop("b", None)
    st = res["stats"]
    ctx.cov["evaluations"] = st.get("runs", 0)
    ctx.cov["distinct_nontrivial"] = dnt
    ctx.cov["traces_validated_against_impl"] = st.get("runs", 0)
    ctx.cov["inputs"] = total
    ctx.cov["reader_operations_validated"] = st.get("ops", 0)
    ctx.cov["inputs_with_overlong_field"] = st.get("overlong_sites", 0)
    if st.get("load_unattributed", 0):
        ctx.cov["notes"].append("%d Model::load runs failed (panic/abort/timeout) without a decoder-level cause; "
                                "not judged here (C05 judges the loader)" % st["load_unattributed"])
    ctx.add_samples(samples)
    cases = {}

    def lookup(rec):
        cid = rec.get("case", {}).get("id")
        if not cases:
            with open(trace) as f:
                for line in f:
                    if '"ev":"case"' in line:
                        r = json.loads(line)
                        cases[r["id"]] = r
        return cases.get(cid)

    ctx.judge(res["bad"], "vh-load proto", SPEC, CFG, case_lookup=lookup, badtotal=res["badtotal"])
    ctx.finish(
        rule="evaluations = (input, api) runs, 7 apis per input; inputs = distinct byte strings: 6 valid ONNX "
             "documents x every length-delimited field x (21 boundary length classes + TLC candidates), "
             "truncations, byte flips, random, over-long varints, deep nesting; non-trivial = mutated/truncated/"
             "special inputs and other inputs of >= 8 bytes",
        assumptions=[
            "traced apis observe the decoder through the public ReadValue trait beneath LimitReader; "
            "parse_buf/parse_file/is_onnx_model/Model::load are observed black-box (outcome only)",
            "non-termination is observed as > 0.3 s of CPU time (twice: in the batch and re-run alone) on inputs of "
            "< 1 KB, or as more than OpBound(n) = 4n+16 reader operations in the traced runs",
            "children run with RLIMIT_AS = 8 GiB: an allocation failure is the decoder asking for > 8 GiB for an input of < 1 KB",
            "Model::load failures are judged only when a traced run of the same input shows a decoder-level cause",
        ],
        exhaustive=False)
