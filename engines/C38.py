"""C38 - The ONNX protobuf decoder terminates and never panics.

1. ProtoReader.tla model-checked. The reader reads a varint as the code does (1-byte limit check, then up to
   MaxVar bytes), so "position beyond the limit of an embedded message" is a reachable state (MC_ProtoReader_overrun
   shows it). For the reader with the code's bounds test (end_of: checked_add) TLC checks, for every decoder
   behaviour: position monotone, accepted lengths within the input, an over-long region ends in an error, no
   operation succeeds beyond a limit (InLimit), operations <= OpBound(n), termination. The alternative bounds test
   `len <= end - position` is REFUTED by TLC (InLimit) - it relies on position <= end.
2. ProtoReader.tla, pinned-tree variant (wrapping arithmetic at word size 2^4/2^5) explored by TLC, which prints
   every step that breaks the contract as a CANDIDATE (field kind, length class relative to the position)
   -> scaled to 64-bit length prefixes by the harness.
3. vh-load proto: valid ONNX documents with every length prefix replaced by the boundary classes and the TLC
   candidates, truncations, byte flips, random bytes, over-long varints, deep nesting, the INFLATED-CHAIN family (one
   field declares 2^31 .. 2^64-1 bytes and every enclosing message is inflated consistently, so only the real input
   is short; every field kind incl. packed numeric data, raw_data, strings, messages) and the STRADDLE family
   (a 2..10-byte tag / varint value / length / packed element that starts inside an embedded message or packed
   field and ends after its declared end, at every nesting level of the schema, with further bytes behind);
   every input decoded with a tracing reader beneath the crate's LimitReader (buffer, file, sniffing) and
   black-box (parse_buf, parse_file, is_onnx_model, Model::load) in child processes - by TWO builds of the
   harness: cargo profile `release` (overflow checks off) and `checked` (release + overflow-checks +
   debug-assertions; a sample of the random families, all structured families).
4. Trace_Proto.tla validates both recorded traces: the ProtoContract predicates decide; the build profile is
   part of every signature. A decode that returns a message for a straddle input is reported as DRIFT; so is a run
   whose largest single allocation (recorded by a counting global allocator in the child) exceeds
   ProtoContract!AllocBound(n) without ending in an abort or panic."""
import json
import os

import vlib

SPEC = "load/Trace_Proto"
CFG = "load/Trace_Proto.cfg"


def run(ctx):
    ctx.build(["vh-load"])
    ctx.build(["vh-load"], profile="checked")
    suffix = "" if ctx.quick else "_t"
    ctx.tlc_mc("load/MC_ProtoReader", "load/MC_ProtoReader_contract%s.cfg" % suffix, workers=4, timeout=1800,
               label="reader with the code's bounds test: Monotone, InBounds, OverlongIsError, InLimit, Linear, Terminates")
    trace = ctx.path("proto.ndjson")
    if ctx.replay:
        case = ctx.replay["case"]
        prof = case.get("build", "release")
        ctx.harness("vh-load", ["proto", "--out", trace, "--only-case", json.dumps(case), "--hang-samples", 1000],
                    profile=prof)
        res = ctx.tlc_trace(SPEC, CFG, trace, timeout=1800)
        return finish(ctx, [(trace, res)], 0)
    # the state "position beyond the limit" is reachable; the subtracting bounds test is refuted
    refuted = [("load/MC_ProtoReader_subtract.cfg", "InLimit")]
    if not ctx.quick:
        refuted.insert(0, ("load/MC_ProtoReader_overrun.cfg", "NoOverrun"))
    for cfg, inv in refuted:
        info, out = ctx.tlc_mc("load/MC_ProtoReader", cfg, workers=4, timeout=1800, expect_ok=False,
                               label="expected counterexample: %s" % inv)
        if "Invariant %s is violated" % inv not in out:
            raise vlib.ToolError("%s: expected TLC to refute %s" % (cfg, inv))
        info["expected_counterexample"] = inv
    cands = ctx.path("cands.jsonl")
    ncand = ctx.tlc_generate("load/MC_ProtoReader", "load/MC_ProtoReader_impl%s.cfg" % suffix, cands,
                             workers=4, timeout=3000)
    distinct = sorted(set(open(cands).read().splitlines()))
    with open(cands, "w") as f:
        f.write("\n".join(distinct) + "\n")
    ctx.cov["candidates_from_impl_model"] = len(distinct)
    ctx.cov["candidate_prints"] = ncand
    ctx.harness("vh-load", ["proto", "--out", trace, "--cands", cands], timeout=3000)
    res = ctx.tlc_trace(SPEC, CFG, trace, timeout=3000, heap="12g")
    trace_c = ctx.path("proto_checked.ndjson")
    ctx.harness("vh-load", ["proto", "--out", trace_c, "--cands", cands, "--scale", 35 if ctx.quick else 50],
                timeout=3000, profile="checked")
    res_c = ctx.tlc_trace(SPEC, CFG, trace_c, timeout=3000, heap="12g")
    if not ctx.quick or os.environ.get("VERIF_SELFTEST"):
        selftest(ctx, trace)
    finish(ctx, [(trace, res), (trace_c, res_c)], len(distinct))


def selftest(ctx, trace):
    """Binding self-test: corrupt recorded events of VALID inputs and require Trace_Proto to reject them."""
    groups = []  # (case record, [other records])
    with open(trace) as f:
        for line in f:
            r = json.loads(line)
            if r["ev"] == "case":
                groups.append((r, []))
            else:
                groups[-1][1].append(r)
    done = set()
    out = []
    for c, rs in groups:
        if c["gen"].startswith("valid:") and len(done) < 4:
            rs = [dict(r) for r in rs]
            ops = [r for r in rs if r["ev"] == "op" and r["p0"] != [] and not r["k"].endswith("_begin")]
            ends = [r for r in rs if r["ev"] == "end"]
            if "backwards" not in done and ops:
                ops[0]["p1"] = []          # the reader went back to offset 0
                done.add("backwards")
            elif "panic" not in done and ends:
                ends[0]["outcome"] = "panic"
                done.add("panic")
            elif "accepted" not in done and ops:
                o = [r for r in ops if r["k"] in ("skip", "bytes", "string") and r["ok"]]
                if o:
                    o[0]["len"] = [0, 0, 1]  # an accepted length of 2^30 in a small input
                    done.add("accepted")
            elif "nonlinear" not in done and ops:
                k = rs.index(ops[0])
                rs = rs[:k] + [dict(ops[0]) for _ in range(4 * c["n"] + 40)] + rs[k:]
                done.add("nonlinear")
        if c["gen"].startswith("valid:") or len(out) < 3000:
            out.append(c)
            out.extend(rs)
    st = ctx.path("selftest.ndjson")
    with open(st, "w") as f:
        for k, r in enumerate(out):
            r["seq"] = k + 1
            f.write(json.dumps(r) + "\n")
    res = ctx.tlc_trace(SPEC, CFG, st, timeout=1800)
    got = set((b["sig"]["class"], b["sig"]["cause"]) for b in res["bad"])
    want = [("position moved backwards", ""), ("panic", ""), ("overlong length accepted", "read len>remaining"),
            ("nonlinear", "")]
    missing = [w for w in want if w not in got]
    ctx.cov["binding_selftest"] = {"corruptions": sorted(done), "rejected": [list(w) for w in want if w in got]}
    if missing or len(done) < 4:
        raise vlib.ToolError("binding self-test failed: corrupted trace not rejected for %s (applied %s)" % (missing, sorted(done)))
    ctx.log("binding self-test: 4 corrupted events of valid inputs rejected by Trace_Proto")


def finish(ctx, runs, ncand):
    def nontrivial(r):
        return r["gen"].split(":")[0] in ("mutlen", "truncate", "pinned", "longvarint", "deepnest", "straddle") or r["n"] >= 8

    st = {}
    bad = []
    badtotal = 0
    inputs = dnt = 0
    builds = []
    for trace, res in runs:
        total, distinct, d, samples = vlib.scan_cases(trace, ["build", "gen", "lenclass", "site", "n", "b"], nontrivial)
        for s in samples:
            s.pop("b", None)
        ctx.add_samples(samples, cap=6)
        inputs += total
        dnt += d
        for k, v in res["stats"].items():
            st[k] = st.get(k, 0) + v
        bad += res["bad"]
        badtotal += res["badtotal"]
        if samples:
            builds.append(samples[0]["build"])
    ctx.cov["evaluations"] = st.get("runs", 0)
    ctx.cov["distinct_nontrivial"] = dnt
    ctx.cov["traces_validated_against_impl"] = st.get("runs", 0)
    ctx.cov["inputs"] = inputs
    ctx.cov["builds"] = builds
    ctx.cov["reader_operations_validated"] = st.get("ops", 0)
    ctx.cov["inputs_with_overlong_field"] = st.get("overlong_sites", 0)
    ctx.cov["straddle_inputs"] = st.get("straddle_cases", 0)
    ctx.cov["straddle_overruns_observed"] = st.get("straddle_overruns", 0)
    if not ctx.replay and st.get("straddle_cases", 0) and st.get("straddle_overruns", 0) == 0:
        raise vlib.ToolError("vacuous straddle family: no varint was observed crossing a region end")
    if st.get("straddle_accepted", 0):
        ctx.drift("%d decode(s) of an input in which a varint straddles the end of an embedded message / packed field "
                  "returned a message (the reader lets the varint through and only then reports the end); a strict "
                  "reader (ProtoReader.tla: nothing succeeds beyond a limit) predicts an error - allowed by the "
                  "property (message or error), reported as drift" % st["straddle_accepted"])
    if st.get("alloc_over", 0):
        ctx.drift("%d run(s) requested a single allocation larger than ProtoContract!AllocBound(n) = 64n + 4 MiB: memory "
                  "reserved in proportion to a declared length rather than to the bytes present (not a violation of the "
                  "property text unless it ends in an abort or panic)" % st["alloc_over"])
    ctx.cov["runs_over_alloc_bound"] = st.get("alloc_over", 0)
    if st.get("load_unattributed", 0):
        ctx.cov["notes"].append("%d Model::load runs failed (panic/abort/timeout) without a decoder-level cause; "
                                "not judged here (C05 judges the loader)" % st["load_unattributed"])
    cases = {}

    def lookup(rec):
        key = (rec.get("case", {}).get("build"), rec.get("case", {}).get("id"))
        if not cases:
            for trace, _ in runs:
                with open(trace) as f:
                    for line in f:
                        if '"ev":"case"' in line:
                            r = json.loads(line)
                            cases[(r["build"], r["id"])] = r
        return cases.get(key)

    ctx.judge(bad, "vh-load proto", SPEC, CFG, case_lookup=lookup, badtotal=badtotal)
    ctx.finish(
        rule="evaluations = (input, api, build) runs, 7 apis per input, 2 builds (release; checked = release + "
             "overflow-checks + debug-assertions, on a sample of the random families); inputs = byte strings: 6 valid "
             "ONNX documents x every length-delimited field x (23 boundary length classes + TLC candidates), "
             "truncations, byte flips, random, over-long varints, deep nesting, consistently inflated chains of nested lengths "
             "(every site x 2^31..2^64-1, ancestors agree), and the straddle family (19 message "
             "paths + 3 packed fields x tag/value/length/element x widths x split points x parent covers or not); "
             "non-trivial = mutated/truncated/special inputs and other inputs of >= 8 bytes",
        assumptions=[
            "traced apis observe the decoder through the public ReadValue trait beneath LimitReader; "
            "parse_buf/parse_file/is_onnx_model/Model::load are observed black-box (outcome only)",
            "non-termination is observed as > 0.3 s of CPU time (twice: in the batch and re-run alone) on inputs of "
            "< 1 KB, or as more than OpBound(n) = 4n+16 reader operations in the traced runs",
            "children run with RLIMIT_AS = 8 GiB: an allocation failure is the decoder asking for > 8 GiB for an input of < 1 KB",
            "build profiles exercised: harness profile `release` (opt-level 3, overflow checks and debug assertions off) "
            "and `checked` (the same plus overflow-checks and debug-assertions); a panic in either is a violation",
            "Model::load failures are judged only when a traced run of the same input shows a decoder-level cause",
        ],
        exhaustive=False)
