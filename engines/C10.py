"""C10 - Shape inference never contradicts execution.

impl -> spec: `vh-ops infer` drives the real code - (a) single-operator ONNX models (catalogue of ~70
operators x attribute variants, seeded shapes / integer data) whose `as_infer_shapes()` rule is called on a
seeded abstraction of the concrete inputs, (b) seeded multi-operator chains over shape-carrying integer
tensors (Shape/Gather/Slice/Concat/arithmetic/Neg/Equal/Where/Cast feeding ConstantOfShape/Expand/Range/
Reshape/Tile), and (c) "fold" chains in which every rule that decides something from SymExpr::range() /
is_positive() / simplify() / symbolic equality or from a folded constant (Equal, Where picking a branch,
Less/Greater, Range, Expand, ConstantOfShape, Reshape with -1, Slice with symbolic start/end, Max/Min) is fed
by scalar value expressions with two symbolic operands of which one may be negative (d, -d, 0-d, d-k, k-d,
t*d', t*t', t/d', t+d') over small symbolic dims (0..4) and Equal compares with the value the expression really
has - with the rules applied in plan order as rten::infer_shapes does - and Model::run on the concrete inputs.  specs/shape/Trace_ShapeInfer (contract: specs/shape/ShapeInfer.tla, expression semantics:
specs/lib/SymExpr.tla) unifies symbolic and concrete inputs and judges every inferred rank / length / fixed
dim or element / expression against what execution produced.  The contract machinery and a transcription of
the BinaryOp broadcasting rule are model-checked by MC_ShapeInfer."""
import collections
import concurrent.futures
import json
import time

import vlib

SPEC = "shape/Trace_ShapeInfer"
CFG = "shape/Trace_ShapeInfer.cfg"
JENV = {"JAVA_TOOL_OPTIONS": "-Xss1g -Dtlc2.tool.queue.IStateQueue=StateDeque -XX:ParallelGCThreads=2"}


def validate(ctx, files):
    def one(f):
        return ctx.tlc_trace(SPEC, CFG, f, timeout=6000, heap="4g" if ctx.quick else "8g", env=JENV)

    results = []
    with concurrent.futures.ThreadPoolExecutor(max_workers=4) as ex:
        futs = []
        for f in files:
            futs.append(ex.submit(one, f))
            time.sleep(0.3)
        for fu in futs:
            results.append(fu.result())
    stats = {}
    merged = {}
    for r in results:
        for k, v in r["stats"].items():
            stats[k] = stats.get(k, 0) + v
        for b in r["bad"]:
            key = json.dumps(b["sig"], sort_keys=True)
            if key in merged:
                merged[key]["count"] += b.get("count", 1)
            else:
                merged[key] = b
    return list(merged.values()), stats


def scan(files):
    """Measured coverage: operator x variant combinations that were inferred AND executed, distinct cases."""
    cases = {}
    combos = collections.Counter()
    ops_judged = collections.Counter()
    seen = set()
    total = dnt = 0
    samples = []
    notes = collections.Counter()
    for f in files:
        with open(f) as fh:
            for line in fh:
                r = json.loads(line)
                if r["ev"] == "case":
                    cases[r["id"]] = r
                    continue
                c = cases.pop(r["id"])
                total += 1
                if r["infer"] == "err" and r["run"] == "ok":
                    notes["%s: inference error '%s' although execution succeeds" % (c["op"], r["imsg"])] += 1
                if r["infer"] == "panic":
                    notes["%s: inference rule panicked: %s" % (c["op"], r["imsg"])] += 1
                if r["run"] == "panic":
                    notes["%s: execution panicked: %s" % (c["op"], r["rmsg"][:80])] += 1
                if r["drv"] == "diff":
                    notes["%s: rten::infer_shapes (graph driver) reports other shapes than the emulated propagation" % c["op"]] += 1
                if not (r["infer"] == "ok" and r["run"] == "ok"):
                    continue
                combos["%s/%s/%s" % (c["mode"], c["op"], c["variant"])] += 1
                ops_judged[c["op"]] += 1
                key = json.dumps([c["op"], c["attrs"] if c["mode"] == "single" else "", [[i["shape"], i["vals"], i["k"], i["x"]] for i in c["ins"]]],
                                 sort_keys=True)
                if key in seen:
                    continue
                seen.add(key)
                symbolic = any(x["op"] != "Val" for i in c["ins"] for x in i["x"])
                claims = any(s["k"] not in ("none", "unknown") for s in r["so"])
                if symbolic and claims:
                    dnt += 1
                    if len(samples) < 3:
                        samples.append({"op": c["op"], "variant": c["variant"], "attrs": c["attrs"], "env": c["env"],
                                        "ins": [{"shape": i["shape"], "vals": i["vals"], "k": i["k"], "x": i["x"]} for i in c["ins"]],
                                        "inferred": r["so"], "executed": [{"shape": o["shape"], "vals": o["vals"]} for o in r["outs"]]})
    return total, dnt, len(seen), combos, ops_judged, samples, notes


def finish(ctx, files, bad, stats):
    total, dnt, distinct, combos, ops_judged, samples, notes = scan(files)
    ctx.cov["evaluations"] = total
    ctx.cov["distinct_nontrivial"] = dnt
    ctx.cov["distinct_judgeable_cases"] = distinct
    ctx.cov["traces_validated_against_impl"] = total
    ctx.cov["spec_counters"] = stats
    ctx.cov["operators_inferred_and_executed"] = dict(sorted(ops_judged.items()))
    ctx.cov["operator_variants_exercised"] = dict(sorted(combos.items()))
    ctx.cov["notes"].append(
        "spec_counters (measured by Trace_ShapeInfer): cases = operator applications; judged = inference returned outputs, "
        "execution succeeded and Unify accepted the assignment; discarded = assignment inconsistent with the symbolic inputs "
        "(in chains: downstream of an operator whose inference already contradicted execution); claims = inferred dims / "
        "elements compared; undef_claims = expressions without a value under the assignment (no claim); unknown_outs = outputs "
        "inferred as unknown (no claim); infer_err_run_ok = inference error although execution succeeded (not a claim)")
    for n, c in notes.most_common(12):
        ctx.cov["notes"].append("observed (not judged): %s (%d)" % (n, c))
    if stats.get("drv_diff", 0):
        ctx.drift("rten::infer_shapes and the emulated propagation disagree for %d chain operators" % stats["drv_diff"])
    ctx.add_samples(samples)
    ctx.judge(bad, "vh-ops infer", SPEC, CFG, case_lookup=lambda rec: rec, badtotal=len(bad))
    ctx.finish(
        rule="cases = operator applications: single-operator models from a catalogue of operators x attribute variants with seeded "
             "shapes (rank 0-4, dims incl. 0 and 1) and integer data (shape-carrying vectors incl. negative / zero values), each with "
             "a seeded abstraction (dim -> fixed | positive symbol | expression; element -> value | symbol | expression; tensor -> "
             "unknown); plus every operator of seeded Shape/Gather/.../Equal/Where chains and of 'fold' chains (products / quotients / "
             "sums of two symbolic, possibly negative dim expressions feeding Equal->Where, Less/Greater, Range, Expand, ConstantOfShape, "
             "Reshape(-1), Slice). distinct by (op, attrs, concrete inputs, "
             "symbolic inputs); non-trivial = some symbolic input is not a constant and inference made a claim (not 'unknown')",
        assumptions=["optimisation is off when the models are loaded; the operator object is the one the ONNX loader built",
                     "chains: the propagation of rten::infer_shapes is emulated from its public pieces (needed to obtain expression "
                     "trees; the real driver's result is compared per operator output, field drv / counter drv_diff)",
                     "the assignment of the input symbols is logged by the harness and accepted only if TLC finds it consistent",
                     "f32 outputs are compared by shape only unless integral; values of tensors with > 64 elements are not logged",
                     "expressions are evaluated in checked i32 arithmetic; Broadcast outside its documented contract (incl. {0,1}) "
                     "and symbols invented by inference that nothing determines make no claim"],
        exhaustive=False)


def run(ctx):
    ctx.level = "exploration"
    ctx.build(["vh-ops"])
    if ctx.replay:
        return replay(ctx)
    ctx.tlc_mc("shape/MC_ShapeInfer", "shape/MC_ShapeInfer.cfg", workers=4, timeout=1800, heap="4g")
    shards = 2 if ctx.quick else 4
    per, chains, fold = (24, 160, 60) if ctx.quick else (3000, 30000, 6000)
    prefix = ctx.path("infer.ndjson")
    ctx.harness("vh-ops", ["infer", "--out", prefix, "--per", per, "--chains", chains, "--fold-chains", fold, "--shards", shards], timeout=3600)
    files = ["%s.%d" % (prefix, k) for k in range(shards)]
    bad, stats = validate(ctx, files)
    finish(ctx, files, bad, stats)


def replay(ctx):
    case = ctx.replay["case"]
    trace = ctx.path("infer.ndjson")
    rec = {k: case[k] for k in ("mode", "op", "variant", "attrs", "env", "ins")}
    rec["replay"] = case["replay"]
    ctx.harness("vh-ops", ["infer", "--out", trace, "--only-case", json.dumps(rec)])
    bad, stats = validate(ctx, [trace])
    finish(ctx, [trace], bad, stats)
