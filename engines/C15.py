"""C15 - Operators conform to ONNX reference semantics.

1. TLC model-checks algebraic sanity properties of the reference itself (specs/ops/MC_OnnxAlgebra*.cfg:
   Transpose o Transpose = id, Concat/Split inverse, full-range Slice = id, Reduce over all axes =
   scalar fold, ... on every tensor of tiny shapes).
2. impl -> spec: `vh-ops onnxref` runs single-operator ONNX models through rten::Model::run and
   records case + outcome; TLC validates the trace with specs/ops/Trace_Onnx.tla, which computes the
   expected outputs with OnnxOps.OnnxEval and compares shape, dtype and every element.  Cases come from
   (a) a seeded random generator per operator (shapes, attributes drawn uniformly, integer-valued data,
       inputs as graph inputs / initializers / non-contiguous tensors) with value pools aimed at the
       rounding and saturation points of the numeric operators (exact ties k+1/2 for even/odd/negative
       k, odd and even zero points, both output types, per-tensor and per-axis scales, fractional floats
       next to the ends of the target range for Cast / Round / QuantizeLinear / DynamicQuantizeLinear);
   (b) attribute GRIDS (`--grid`): the full cross product of the interacting shape-arithmetic
       attributes over a small size grid - pooling / convolution family: extent 1..8 x kernel 1..4 x
       stride 1..3 x (pad_begin, pad_end) in 0..2 squared or an auto_pad mode x ceil_mode / dilation
       (x count_include_pad); Slice start/end/step; Pad mode x begin x end (incl. negative); Resize
       extent x factor x sizes|scales x coordinate mode x nearest mode; Split; Trilu; Range; TopK.
       The thorough tier runs the grids completely, the quick tier a seeded sample of GRID_QUICK
       points per operator."""
import collections
import concurrent.futures
import hashlib
import json
import os

import vlib

MC_CFGS = ["ops/MC_OnnxAlgebra_small.cfg", "ops/MC_OnnxAlgebra_binary.cfg"]
MC_CFGS_THOROUGH = MC_CFGS + ["ops/MC_OnnxAlgebra_medium.cfg", "ops/MC_OnnxAlgebra_wide.cfg"]


def op_list(ctx):
    out = ctx.harness("vh-ops", ["onnxref", "--list"])
    return [o for o in out.strip().split(",") if o]


GRID_QUICK = 250
GRID_ALL = 1000000


def record(ctx, ops, per, trace, grid=0):
    """Run the harness for `ops`; if the process dies (abort/segv/OOM in the code under test) the
    dying case gets an `abort` outcome record and the run resumes with the next case."""
    first = 1
    parts = []
    for attempt in range(50):
        part = trace + ".part%d" % attempt
        rc, out = ctx.run([ctx.bin("vh-ops"), "onnxref", "--out", part, "--ops", ",".join(ops), "--per", str(per),
                           "--first-id", str(first), "--grid", str(grid)],
                          env={"VERIF_SEED": str(ctx.seed), "VERIF_TIER": ctx.tier}, cwd=ctx.work, timeout=3600)
        parts.append(part)
        if rc == 0:
            break
        if rc == 2 or rc == 124:
            raise vlib.ToolError("harness onnxref failed rc=%s: %s" % (rc, out[-2000:]))
        # died inside a case: the last complete line must be a case record
        lines = open(part).read().splitlines()
        last = None
        for ln in reversed(lines):
            try:
                last = json.loads(ln)
                break
            except Exception:
                continue
        if last is None or last.get("ev") != "case":
            raise vlib.ToolError("harness onnxref died outside a case rc=%s: %s" % (rc, out[-2000:]))
        with open(part, "w") as f:
            for ln in lines:
                try:
                    json.loads(ln)
                except Exception:
                    continue
                f.write(ln + "\n")
            f.write(json.dumps({"ev": "ret", "id": last["id"], "outcome": "abort", "msg": "process exit %s" % rc,
                                "outs": [], "seq": 0}) + "\n")
        first = last["id"] + 1
    else:
        raise vlib.ToolError("harness onnxref kept dying")
    with open(trace, "w") as f:
        for p in parts:
            f.write(open(p).read())
            os.remove(p)
    return trace


def scan(trace, acc):
    """Count operator x attribute-combination x outcome; distinct / non-trivial cases."""
    cur = None
    for line in open(trace):
        r = json.loads(line)
        if r["ev"] == "case":
            cur = r
            continue
        if cur is None:
            continue
        acc["total"] += 1
        op = acc["ops"].setdefault(cur["op"], {"cases": 0, "ok": 0, "err": 0, "panic": 0, "combos": collections.Counter()})
        op["cases"] += 1
        oc = r["outcome"]
        op["ok" if oc == "ok" else ("panic" if oc in ("panic", "abort") else "err")] += 1
        op["combos"][cur["combo"] or cur["tag"]] += 1
        key = hashlib.sha1(json.dumps([cur["op"], cur["attrs"], [(i["p"], i["shape"], i["dtype"], i["data"]) for i in cur["ins"]]],
                                      sort_keys=True).encode()).digest()
        if key not in acc["seen"]:
            acc["seen"].add(key)
            if oc == "ok" and any(len(i["data"]) >= 2 for i in cur["ins"]):
                acc["dnt"] += 1
                if len(acc["samples"]) < 4 and len(line) < 700:
                    acc["samples"].append({"op": cur["op"], "attrs": cur["attrs"],
                                           "inputs": [{"shape": i["shape"], "dtype": i["dtype"], "data": i["data"]} if i["p"] else None
                                                      for i in cur["ins"]],
                                           "rten_outputs": [{"shape": o["shape"], "dtype": o["dtype"], "data": o["data"]} for o in r["outs"]]})
        cur = None


def opstats(out):
    import re
    st = {}
    for m in re.finditer(r'<<"OPSTAT", "(\w+)", (\d+), (\d+), (\d+), (\d+)>>', out):
        st[m.group(1)] = {"judged": int(m.group(2)), "undefined": int(m.group(3)), "unmodelled": int(m.group(4)),
                          "error_not_judged": int(m.group(5))}
    return st


def run(ctx):
    ctx.level = "exploration"
    ctx.build(["vh-ops"])
    if ctx.replay:
        return replay(ctx)
    ops = op_list(ctx)
    per = 50 if ctx.quick else 1500
    grid = GRID_QUICK if ctx.quick else GRID_ALL
    # chunks of about equal numbers of cases (greedy, largest operator first)
    gsz = dict((kv.split(":")[0], int(kv.split(":")[1])) for kv in
               ctx.harness("vh-ops", ["onnxref", "--list-grids"]).strip().split(",") if ":" in kv)
    nchunks = 4 if ctx.quick else 16
    chunks, load = [[] for _ in range(nchunks)], [0] * nchunks
    for op in sorted(ops, key=lambda o: -(per + min(gsz.get(o, 0), grid))):
        i = load.index(min(load))
        chunks[i].append(op)
        load[i] += per + min(gsz.get(op, 0), grid)
    chunks = [sorted(c, key=ops.index) for c in chunks if c]
    cfg_text = open(os.path.join(vlib.SPECS, "ops/Trace_Onnx.cfg")).read()

    def mc(cfg):
        # 1. the reference's own sanity, model-checked (runs beside the trace work)
        ctx.tlc_mc("ops/MC_OnnxAlgebra", cfg, workers=2, timeout=2400)
        return None

    def work(i):
        # 2. record + validate one chunk of operators
        trace = ctx.path("onnx_%d.ndjson" % i)
        record(ctx, chunks[i], per, trace, grid=grid)
        cfg = ctx.path("Trace_Onnx_chunk%d.cfg" % i)      # distinct name -> distinct TLC metadir
        with open(cfg, "w") as f:
            f.write(cfg_text)
        return trace, ctx.tlc_trace("ops/Trace_Onnx", cfg, trace, timeout=3000, heap="6g")

    acc = {"total": 0, "ops": {}, "seen": set(), "dnt": 0, "samples": []}
    bad, badtotal, stats, perop = [], 0, collections.Counter(), {}
    with concurrent.futures.ThreadPoolExecutor(max_workers=4) as ex:
        futs = [ex.submit(mc, cfg) for cfg in (MC_CFGS if ctx.quick else MC_CFGS_THOROUGH)]
        futs += [ex.submit(work, i) for i in range(len(chunks))]
        for fu in futs:
            r = fu.result()
            if r is None:
                continue
            trace, res = r
            scan(trace, acc)
            bad += res["bad"]
            badtotal += res["badtotal"]
            stats.update(res["stats"])
            perop.update(opstats(res["out"]))
            os.remove(trace)
    for t in ctx.cov["trace_runs"]:
        t["cfg"] = "ops/Trace_Onnx.cfg"
    if not ctx.quick:
        self_test(ctx)
    finish(ctx, acc, bad, badtotal, stats, perop, ops)


def self_test(ctx):
    """Binding self-test: corrupt single recorded fields of a small trace; the trace spec must flag each
    corruption with the right class (and must not accept a trace with a dropped record)."""
    base = ctx.path("selftest_base.ndjson")
    record(ctx, ["Transpose", "Identity"], 12, base)
    recs = [json.loads(l) for l in open(base)]
    results = {}
    for kind, want in (("value", "data"), ("shape", "shape"), ("dtype", "dtype"), ("panic", "panic")):
        out = []
        done = False
        for r in recs:
            r = json.loads(json.dumps(r))
            if (not done and r["ev"] == "ret" and r["outcome"] == "ok" and len(r["outs"][0]["data"]) >= 2
                    and len(r["outs"][0]["shape"]) >= 2):
                o = r["outs"][0]
                if kind == "value":
                    o["data"][1] += 1
                elif kind == "shape":
                    o["shape"] = o["shape"] + [1]
                elif kind == "dtype":
                    o["dtype"] = "u8" if o["dtype"] != "u8" else "i8"
                else:
                    r["outcome"], r["outs"] = "panic", []
                done = True
            out.append(r)
        if not done:
            raise vlib.ToolError("binding self-test: no record to corrupt")
        path = ctx.path("selftest_%s.ndjson" % kind)
        with open(path, "w") as f:
            f.write("".join(json.dumps(r) + "\n" for r in out))
        cfg = ctx.path("Trace_Onnx_selftest_%s.cfg" % kind)
        with open(cfg, "w") as f:
            f.write(open(os.path.join(vlib.SPECS, "ops/Trace_Onnx.cfg")).read())
        res = ctx.tlc_trace("ops/Trace_Onnx", cfg, path, timeout=600)
        classes = sorted(b["sig"]["class"] for b in res["bad"])
        results[kind] = classes
        if classes != [want]:
            raise vlib.ToolError("binding self-test failed: corruption '%s' gave %s, expected ['%s']" % (kind, classes, want))
    ctx.cov["binding_self_test"] = {"corruptions_detected": results, "note": "one recorded output field corrupted per run; "
                                    "a trace with a dropped record is not accepted by Trace_Onnx (strict case/ret alternation)"}
    ctx.cov["trace_runs"] = [t for t in ctx.cov["trace_runs"] if "selftest" not in t["trace"]]


def finish(ctx, acc, bad, badtotal, stats, perop, ops):
    ctx.cov["evaluations"] = acc["total"]
    ctx.cov["distinct_nontrivial"] = acc["dnt"]
    ctx.cov["distinct"] = len(acc["seen"])
    ctx.cov["traces_validated_against_impl"] = acc["total"]
    ctx.cov["judged_against_reference"] = stats.get("judged", 0)
    ctx.cov["not_judged"] = {"onnx_undefined_or_inexact": stats.get("undefined", 0), "unmodelled": stats.get("unmodelled", 0),
                             "rten_returned_error": stats.get("err", 0), "panic_on_undefined_input": stats.get("panic_unjudged", 0)}
    table = {}
    for op in ops:
        h = acc["ops"].get(op)
        if not h:
            continue
        e = dict(perop.get(op, {}))
        e.update({"cases": h["cases"], "rten_ok": h["ok"], "rten_error": h["err"], "rten_panic": h["panic"],
                  "attribute_combinations": dict(sorted(h["combos"].items()))})
        table[op] = e
    ctx.cov["operators"] = table
    ctx.cov["operators_exercised"] = len(table)
    ctx.cov["operators_with_judged_cases"] = sum(1 for v in table.values() if v.get("judged", 0) > 0)
    ctx.add_samples(acc["samples"])
    ctx.judge(bad, "vh-ops onnxref", "ops/Trace_Onnx", "ops/Trace_Onnx.cfg",
              case_lookup=lambda rec: rec.get("case"), badtotal=badtotal)
    ctx.finish(
        rule="cases = seeded random (operator, attribute setting, input shapes of rank 0-4 / dims 0-4, integer-valued data, inputs as "
             "graph inputs or initializers, with/without declared shapes); every case is a single-operator ONNX model run through "
             "rten::Model::run and judged by TLC against OnnxOps.OnnxEval; distinct by (operator, attributes, inputs); non-trivial = "
             "rten produced outputs and some input has >= 2 elements. coverage.operators lists per operator the attribute "
             "combinations exercised with counts and how many cases were judged / ONNX-undefined / rejected by rten with an error",
        assumptions=["OnnxOps.tla transcribes the ONNX operator documentation (opset 21 forms) for the exact integer-valued subset; "
                     "its algebraic sanity instances are model-checked (mc_runs)",
                     "the harness's ONNX protobuf encoder (vcommon::onnx) and rten's loader agree on the model being run",
                     "an error returned by rten (unsupported dtype/attribute) is not judged: the property is about outputs produced",
                     "ONNX bool outputs are compared by truthiness (rten stores bool as i32)",
                     "float operators are judged on integer-valued data only (exact); rounding of non-integer floats is not seen"],
        exhaustive=False)


def replay(ctx):
    case = ctx.replay["case"]
    trace = ctx.path("onnx_replay.ndjson")
    ctx.harness("vh-ops", ["onnxref", "--out", trace, "--only-case", json.dumps(case)])
    res = ctx.tlc_trace("ops/Trace_Onnx", "ops/Trace_Onnx.cfg", trace)
    acc = {"total": 0, "ops": {}, "seen": set(), "dnt": 0, "samples": []}
    scan(trace, acc)
    finish(ctx, acc, res["bad"], res["badtotal"], collections.Counter(res["stats"]), opstats(res["out"]), [case["op"]])
