"""Shared by C02 and C25: Executor.tla model checking + exec harness + Trace_Executor judging."""
import json
import vlib


def add_hub_graphs(path, seed, count):
    """Graphs the small TLC family cannot contain: one value read by about 255 operators (the real
    counter's saturation point), in the JSON format of MC_Executor's Emit. h = op1(x); consumers read
    h as first or second operand, some in-place capable / commutative, h and others requested."""
    import random
    rnd = random.Random(seed)
    lines = []
    for k in range(count):
        n = [253, 254, 255, 256, 257, 300][k % 6]
        ops = [{"ins": [1], "inplace": rnd.random() < 0.5, "comm": False}]
        for i in range(n):
            form = rnd.randrange(4)
            ins = [3, 2] if form == 0 else [2, 3] if form == 1 else [3, 3] if form == 2 else [3]
            comm = len(ins) == 2 and rnd.random() < 0.3
            ops.append({"ins": ins, "inplace": rnd.random() < 0.6, "comm": comm})
        nv = 2 + len(ops)
        outs = sorted(set([nv] + rnd.sample(range(3, nv), rnd.randrange(0, 3))))
        owned = [v for v in (1, 2) if rnd.random() < 0.5]
        big = [v for v in (1, 2) if rnd.random() < 0.3]
        lines.append(json.dumps({"ni": 2, "ops": ops, "outs": outs, "owned": owned, "big": big}))
    with open(path, "a") as f:
        for l in lines:
            f.write(l + "\n")
    return len(lines)


def add_random_graphs(path, seed, count):
    """Random members of the same family with 3..5 operators (same JSON format as MC_Executor's Emit)."""
    import random
    rnd = random.Random(seed * 7919 + 1)
    with open(path, "a") as f:
        for _ in range(count):
            nops = rnd.choice([3, 3, 4, 5])
            ops = []
            for i in range(1, nops + 1):
                k = rnd.choice([1, 2, 2])
                ins = [rnd.randrange(1, 2 + i) for _ in range(k)]
                ops.append({"ins": ins, "inplace": rnd.random() < 0.6, "comm": k == 2 and rnd.random() < 0.4})
            nv = 2 + nops
            outs = sorted(set([nv] + rnd.sample(range(1, nv), rnd.choice([0, 0, 1, 2]))))
            owned = [v for v in (1, 2) if rnd.random() < 0.5]
            big = [v for v in (1, 2) if rnd.random() < 0.4]
            f.write(json.dumps({"ni": 2, "ops": ops, "outs": outs, "owned": owned, "big": big}) + "\n")
    return count


def run_exec(ctx, prop):
    ctx.build(["vh-graph"])
    # design level: the transcribed in-place rule of Graph::run_plan refines the contract on every
    # graph of the family (Init enumerates all graphs; TLC runs each plan)
    # (the 3-operator family has 4.8M graphs: TLC's single-threaded enumeration of initial states makes it
    # impractical, so both tiers model-check the complete 2-operator family; the thorough tier executes a 12x larger
    # sample of its graphs and adds random graphs of 3..5 operators, judged by the same trace spec)
    gen_cfg = "graph/MC_Executor_gen2.cfg"
    graphs_all = ctx.path("graphs_all.jsonl")
    ng = ctx.tlc_generate("graph/MC_Executor", gen_cfg, graphs_all, workers=6, timeout=3000, heap="12g")
    # usage counts are u8 in the code and saturate ("sticky" at 255): with CountMax = 2 / 3 TLC reaches
    # saturation on the same graph family; the non-sticky variant must break the contract
    ctx.tlc_mc("graph/MC_Executor", "graph/MC_Executor2_sat.cfg",
               workers=6, timeout=3000, heap="12g", label="saturating usage counts (CountMax small): sticky counts keep the in-place rule safe")
    if not ctx.quick:
        info, out = ctx.tlc_mc("graph/MC_Executor", "graph/MC_Executor2_satbroken.cfg", workers=2, timeout=900, expect_ok=False,
                               label="non-sticky decrement of a saturated count: TLC must find the contract violation")
        if "is violated" not in out:
            raise vlib.ToolError("Executor with StickyDec = FALSE did not produce the expected counterexample")
    graphs = ctx.path("graphs.jsonl")
    n = vlib.sample_lines(graphs_all, graphs, 2500 if ctx.quick else 30000, ctx.seed)
    if not ctx.replay:
        n += add_hub_graphs(graphs, ctx.seed, 6 if ctx.quick else 40)
        n += add_random_graphs(graphs, ctx.seed, 300 if ctx.quick else 20000)
    if ctx.replay:
        with open(graphs, "w") as f:
            g = dict(ctx.replay["record"]["case"]["g"])
            g.pop("consts", None)
            f.write(json.dumps(g) + "\n")
    traces = []
    for i, consts in enumerate(["yes", "no"]):
        t = ctx.path("exec%d.ndjson" % i)
        ctx.harness("vh-graph", ["exec", "--graphs", graphs, "--out", t, "--consts", consts],
                    env={"VERIF_SEED": str(ctx.seed + i)})
        traces.append(t)
    from concurrent.futures import ThreadPoolExecutor
    with ThreadPoolExecutor(max_workers=2) as ex:
        results = list(ex.map(lambda t: ctx.tlc_trace("graph/Trace_Executor", "graph/Trace_Executor.cfg", t, timeout=3000), traces))
    runs = 0
    for res in results:
        mine = [b for b in res["bad"] if b["sig"].get("prop") == prop]
        for b in res["bad"]:
            if b["sig"].get("prop") != prop:
                ctx.cov["notes"].append("predicate of %s failed in this trace: %s" % (b["sig"].get("prop"), json.dumps(b["sig"], sort_keys=True)))
        ctx.judge(mine, "vh-graph exec", "graph/Trace_Executor", "graph/Trace_Executor.cfg")
        runs += res["stats"].get("runs", 0)
    # distinct graphs with at least one in-place capable operator
    seen, nontrivial, samples = set(), 0, []
    for line in open(graphs):
        if line in seen:
            continue
        seen.add(line)
        g = json.loads(line)
        if any(o["inplace"] for o in g["ops"]):
            nontrivial += 1
            if len(samples) < 3:
                samples.append(g)
    ctx.cov.update({"evaluations": runs, "distinct_nontrivial": nontrivial, "traces_validated_against_impl": 2 * n,
                    "graphs_enumerated_by_tlc": ng, "graphs_executed": n})
    ctx.add_samples(samples)


def run_realops(ctx, prop):
    """Real operators with an in-place path under a history of strategies (vh-graph exec-realops); the
    bits of every value must not depend on the strategy (C02) / on what was run before (C25)."""
    t = ctx.path("realops.ndjson")
    ctx.harness("vh-graph", ["exec-realops", "--cases", 600 if ctx.quick else 20000, "--out", t])
    res = ctx.tlc_trace("graph/Trace_RealOps", "graph/Trace_RealOps.cfg", t, timeout=3000, ncases_key="rcase")
    mine = [b for b in res["bad"] if b["sig"].get("prop") == prop]
    for b in res["bad"]:
        if b["sig"].get("prop") != prop:
            ctx.cov["notes"].append("predicate of %s failed in this trace: %s" % (b["sig"].get("prop"), json.dumps(b["sig"], sort_keys=True)))
    ctx.judge(mine, "vh-graph exec-realops", "graph/Trace_RealOps", "graph/Trace_RealOps.cfg")
    ctx.cov["real_operator_runs"] = res["stats"].get("runs", 0)
    ctx.cov["evaluations"] += res["stats"].get("runs", 0)
