"""Shared by C02 and C25: Executor.tla model checking + exec harness + Trace_Executor judging."""
import json
import vlib


def run_exec(ctx, prop):
    ctx.build(["vh-graph"])
    # design level: the transcribed in-place rule of Graph::run_plan refines the contract on every
    # graph of the family (Init enumerates all graphs; TLC runs each plan)
    gen_cfg = "graph/MC_Executor_gen2.cfg" if ctx.quick else "graph/MC_Executor_gen3.cfg"
    graphs_all = ctx.path("graphs_all.jsonl")
    ng = ctx.tlc_generate("graph/MC_Executor", gen_cfg, graphs_all, workers=6, timeout=3000, heap="12g")
    graphs = ctx.path("graphs.jsonl")
    n = vlib.sample_lines(graphs_all, graphs, 2500 if ctx.quick else 60000, ctx.seed)
    if ctx.replay:
        with open(graphs, "w") as f:
            g = dict(ctx.replay["record"]["case"]["g"])
            g.pop("consts", None)
            f.write(json.dumps(g) + "\n")
    traces = []
    for i, consts in enumerate(["yes", "no"]):
        t = ctx.path("exec%d.ndjson" % i)
        ctx.harness("vh-graph", ["exec", "--graphs", graphs, "--out", t, "--consts", consts],
                    env={"VERIF_SEED": str(ctx.seed + i)})
        traces.append(t)
    from concurrent.futures import ThreadPoolExecutor
    with ThreadPoolExecutor(max_workers=2) as ex:
        results = list(ex.map(lambda t: ctx.tlc_trace("graph/Trace_Executor", "graph/Trace_Executor.cfg", t, timeout=3000), traces))
    runs = 0
    for res in results:
        mine = [b for b in res["bad"] if b["sig"].get("prop") == prop]
        for b in res["bad"]:
            if b["sig"].get("prop") != prop:
                ctx.cov["notes"].append("predicate of %s failed in this trace: %s" % (b["sig"].get("prop"), json.dumps(b["sig"], sort_keys=True)))
        ctx.judge(mine, "vh-graph exec", "graph/Trace_Executor", "graph/Trace_Executor.cfg")
        runs += res["stats"].get("runs", 0)
    # distinct graphs with at least one in-place capable operator
    seen, nontrivial, samples = set(), 0, []
    for line in open(graphs):
        if line in seen:
            continue
        seen.add(line)
        g = json.loads(line)
        if any(o["inplace"] for o in g["ops"]):
            nontrivial += 1
            if len(samples) < 3:
                samples.append(g)
    ctx.cov.update({"evaluations": runs, "distinct_nontrivial": nontrivial, "traces_validated_against_impl": 2 * n,
                    "graphs_enumerated_by_tlc": ng, "graphs_executed": n})
    ctx.add_samples(samples)
