"""C06 - Safe tensor APIs never access memory out of bounds or alias mutably.

Constructors (Construct.tla): accepted => every valid index maps inside the storage (exact arithmetic on the
strides the accepted tensor reports) and, for mutable storage, the layout is injective.
View operations / indexing / mutable references (Trace_Chains.tla over the LayoutOps transcription): every view's
storage window lies inside the root storage and covers every valid index; every value returned by get()/[]/weak
indexing lies inside the view's storage; `&mut` references alive at once are pairwise distinct and inside.
Growth of owned tensors in place (Trace_Grow.tla; Construct.AcceptGrowW transcribes expanded_layout): has_capacity /
append / with_capacity+append / concat build a new layout over an existing Vec: an accepted grown layout and the layout
of the appended result must be injective (decided in TLA+ over Word limbs), the result's extent must lie inside its
storage, and the `&mut` handed out at once by iter_mut / axis_iter_mut / lanes_mut on the result must be distinct.

1. TLC (MC_Construct): acceptance tests in exact arithmetic imply Safe/Injective on a small exhaustive space,
   a K-bit usize model counts wrap-around acceptances (candidates), a 64-bit corner grid is emitted, and chains of
   <= Depth view operations preserve in-bounds / window / mutable injectivity / split disjointness.
2. spec -> impl: vh-tensor construct offers every vector to every safe constructor (release build) and records
   outcome + shape()/strides()/len()/storage length only (never dereferences).
   vh-tensor grow takes the same layouts (plus variants with tied / huge strides on their size-0 and size-1 axes),
   builds owned tensors by from_data_with_strides (Vec capacity below / at / above the grown extent), from_data with
   spare capacity and with_capacity + append, grows EVERY axis by 1 and 2, and records has_capacity, append, the
   result layout and the live `&mut` address sets; concat along every axis likewise.
   impl -> spec: vh-tensor chains runs seeded chains on marker tensors (storage element k holds k).
3. Trace_Construct / Trace_Grow / Trace_Chains judge the traces; disagreements with the transcription that do not break the
   contract are DRIFT."""
import concurrent.futures
import json
import os
import random
import re
import sys
import time

import vlib

SPEC = "tensor/MC_Construct"
_STR = r'"((?:[^"\\]|\\.)*)"'


def mc_generate(ctx, cfg, outfile, workers=8, timeout=2400, label=None):
    rc, out, dt = ctx._tlc(SPEC, cfg, workers, timeout, heap="8g")
    ok = rc == 0 and "Model checking completed. No error has been found." in out
    gen, distinct = ctx._stats(out)
    n = 0
    with open(outfile, "w") as f:
        for m in re.finditer(r'<<"REPLAY", %s>>' % _STR, out):
            f.write(vlib.tla_unescape(m.group(1)).replace("\n", " ") + "\n")
            n += 1
    cands = [json.loads(vlib.tla_unescape(m.group(1))) for m in re.finditer(r'<<"CANDIDATE", %s>>' % _STR, out)]
    ctx.cov["mc_runs"].append({"spec": SPEC, "cfg": cfg, "label": label or cfg, "states_generated": gen,
                               "distinct_states": distinct, "ok": ok, "vectors": n,
                               "kbit_wraparound_candidate_layouts": len(cands), "wall_s": round(dt, 1)})
    ctx.cov["states"] += distinct
    ctx.cov["transitions"] += gen
    ctx.log("TLC %s: %d distinct states, %d vectors, %d K-bit candidates, ok=%s, %.1fs" % (
        os.path.basename(cfg), distinct, n, len(cands), ok, dt))
    if not ok:
        sys.stdout.write(re.sub(r'<<"(REPLAY|CANDIDATE)".*\n', "", out)[-4000:])
        raise vlib.ToolError("model checking of %s with %s did not complete cleanly (rc=%s)" % (SPEC, cfg, rc))
    return n, cands


def drift_lines(out):
    sigs = {}
    for m in re.finditer(r'<<"DRIFTSIG", %s, (\d+)>>' % _STR, out):
        sigs[vlib.tla_unescape(m.group(1))] = int(m.group(2))
    first = {}
    for m in re.finditer(r'<<"DRIFTCASE", %s, %s>>' % (_STR, _STR), out):
        first[json.dumps(json.loads(vlib.tla_unescape(m.group(1))), sort_keys=True)] = vlib.tla_unescape(m.group(2))[:300]
    return sigs, first


def run_jobs(jobs, fn, items):
    with concurrent.futures.ThreadPoolExecutor(max_workers=jobs) as ex:
        return list(ex.map(fn, list(enumerate(items))))


def construct_part(ctx, vec_files, jobs):
    def one(i_f):
        i, f = i_f
        time.sleep(0.43 * i)
        trace = ctx.path("construct_%d.ndjson" % i)
        cur = ctx.path("current_c%d.json" % i)
        try:
            ctx.harness("vh-tensor", ["construct", "--vectors", f, "--out", trace], env={"VERIF_CURRENT": cur})
        except vlib.ToolError as ex:
            last = open(cur).read()[:400] if os.path.exists(cur) else "?"
            raise vlib.ToolError("%s; vector being run: %s" % (ex, last))
        res = ctx.tlc_trace("tensor/Trace_Construct", "tensor/Trace_Construct.cfg", trace, timeout=3000, heap="4g")
        return trace, res
    return run_jobs(jobs, one, vec_files)


def grow_part(ctx, vec_files, jobs):
    def one(i_f):
        i, f = i_f
        time.sleep(0.43 * i + 0.1)
        trace = ctx.path("grow_%d.ndjson" % i)
        cur = ctx.path("current_g%d.json" % i)
        try:
            ctx.harness("vh-tensor", ["grow", "--vectors", f, "--out", trace], env={"VERIF_CURRENT": cur})
        except vlib.ToolError as ex:
            last = open(cur).read()[:400] if os.path.exists(cur) else "?"
            raise vlib.ToolError("%s; layout being grown: %s" % (ex, last))
        res = ctx.tlc_trace("tensor/Trace_Grow", "tensor/Trace_Grow.cfg", trace, timeout=3000, heap="4g")
        return trace, res
    return run_jobs(jobs, one, vec_files)


def chains_part(ctx, nchunks, views, muts, jobs, only=None):
    ctx.cov["chain_params"] = [views, muts]
    def one(i_x):
        i, _ = i_x
        time.sleep(0.43 * i + 0.2)
        trace = ctx.path("chains_%d.ndjson" % i)
        seed = ctx.seed * 1000 + i
        args = ["chains", "--out", trace, "--views", views, "--muts", muts]
        if only:
            seed, cid = only
            args += ["--only-case", cid]
        ctx.harness("vh-tensor", args, env={"VERIF_SEED": str(seed), "VERIF_CURRENT": ctx.path("current_ch%d.json" % i)})
        res = ctx.tlc_trace("tensor/Trace_Chains", "tensor/Trace_Chains.cfg", trace, timeout=3000, heap="4g")
        res["chunk_seed"] = seed
        return trace, res
    return run_jobs(jobs, one, range(nchunks))


def split_lines(lines, n, ctx, tag):
    n = max(1, min(n, len(lines)))
    outs = []
    for i in range(n):
        p = ctx.path("%s_%d.jsonl" % (tag, i))
        with open(p, "w") as f:
            f.write("\n".join(lines[i::n]) + "\n")
        outs.append(p)
    return outs


def run(ctx):
    ctx.build(["vh-tensor"])
    if ctx.replay:
        return replay(ctx)
    q = ctx.quick
    vec = ctx.path("vectors.jsonl")
    _, cands = mc_generate(ctx, "tensor/MC_Construct_quick.cfg" if q else "tensor/MC_Construct_thorough.cfg", vec,
                           label="exact: acceptance => Safe/Injective; kbit: wrap-around candidates; wide: 64-bit grid; "
                                 "chain: view-operation chains keep offsets in bounds, mutable chains injective, splits disjoint")
    ctx.cov["kbit_candidate_layouts"] = len(cands)
    ctx.cov["kbit_candidate_sample"] = cands[:3]
    by = {}
    for line in open(vec).read().splitlines():
        by.setdefault(json.loads(line)["class"], []).append(line)
    rnd = random.Random(ctx.seed)
    for c in by:
        ctx.cov["vectors_" + c] = len(by[c])
    if q:
        for c, n in (("small", 600), ("wide_plain", 300), ("wide_strided", 300)):
            if len(by.get(c, [])) > n:
                by[c] = rnd.sample(by[c], n)
    else:
        for c, n in (("small", 12000), ("wide_strided", 12000)):
            if len(by.get(c, [])) > n:
                by[c] = rnd.sample(by[c], n)
    lines = [x for c in sorted(by) for x in by[c]]
    for c in by:
        ctx.cov["replayed_" + c] = len(by[c])
    jobs = 4
    cres = construct_part(ctx, split_lines(lines, jobs if q else 8, ctx, "vchunk"), jobs)
    # growth of owned tensors: every small layout of rank <= 2, a seeded sample of rank 3
    small_all = [x for x in open(vec).read().splitlines() if json.loads(x)["class"] == "small"]
    low = [x for x in small_all if 1 <= len(json.loads(x)["shapeW"]) <= 2]
    hi = [x for x in small_all if len(json.loads(x)["shapeW"]) == 3]
    nhi = 50 if q else 3000
    if len(hi) > nhi:
        hi = rnd.sample(hi, nhi)
    glines = low + hi
    rnd.shuffle(glines)
    ctx.cov["grow_source_layouts"] = len(glines)
    gres = grow_part(ctx, split_lines(glines, jobs if q else 8, ctx, "gchunk"), jobs)
    hres = chains_part(ctx, jobs if q else 8, 250 if q else 4000, 250 if q else 4000, jobs)
    finish(ctx, cres, hres, gres)


def finish(ctx, cres, hres, gres=()):
    merged = {}
    drift_sigs = {}
    drift_first = {}
    total = dnt = 0
    seen = set()

    def add_bad(res, extra=None):
        for b in res["bad"]:
            if extra:
                b = dict(b)
                b["rec"] = dict(b["rec"], **extra)
            key = json.dumps(b["sig"], sort_keys=True)
            if key in merged:
                merged[key]["count"] += b.get("count", 1)
            else:
                merged[key] = dict(b)
        sigs, first = drift_lines(res["out"])
        for k, v in sigs.items():
            drift_sigs[k] = drift_sigs.get(k, 0) + v
        drift_first.update({k: v for k, v in first.items() if k not in drift_first})

    for trace, res in cres:
        with open(trace) as f:
            for line in f:
                r = json.loads(line)
                total += 1
                key = json.dumps(["c", r["shapeW"], r["stridesW"], r["lens"]])
                if key in seen:
                    continue
                seen.add(key)
                # non-trivial: at least one constructor accepted and the tensor has >= 2 elements
                if any(x["outcome"] == "ok" and x["rlenW"] not in ([], [1]) for x in r["runs"]):
                    dnt += 1
                    if dnt % 499 == 1:
                        ctx.add_samples([{"vector": {"class": r["class"], "shapeW": r["shapeW"], "stridesW": r["stridesW"], "lens": r["lens"]},
                                          "accepted_by": sorted({x["ctor"] for x in r["runs"] if x["outcome"] == "ok"})[:6]}])
        add_bad(res)
        for k in ("runs", "accepted", "safe_count_overflow"):
            ctx.cov["constructor_" + k] = ctx.cov.get("constructor_" + k, 0) + res["stats"].get(k, 0)
    for trace, res in gres:
        with open(trace) as f:
            for line in f:
                r = json.loads(line)
                total += 1
                for g in r["grows"]:
                    key = json.dumps(["g", g["route"], g["shapeW"], g["stridesW"], g["axis"], g["extra"], g["cap"]])
                    if key in seen:
                        continue
                    seen.add(key)
                    # non-trivial: the growth was accepted and live &mut were collected on the result
                    if g["append"] == "ok" and len(g["iter_mut"]) >= 2:
                        dnt += 1
                        if dnt % 499 == 3:
                            ctx.add_samples([{"grow": {k: g[k] for k in ("route", "shapeW", "stridesW", "axis", "extra", "cap", "has", "append", "rshapeW", "rstridesW")}}])
        add_bad(res)
        for k in ("grows", "appended", "mut_sets"):
            ctx.cov["grow_" + k] = ctx.cov.get("grow_" + k, 0) + res["stats"].get(k, 0)
    for trace, res in hres:
        cur = None
        with open(trace) as f:
            for line in f:
                r = json.loads(line)
                if r["ev"] == "case":
                    total += 1
                    cur = {"kind": r["kind"], "shape": r["shape"], "ops": []}
                elif r["ev"] in ("op", "mop", "leaf"):
                    cur["ops"].append([r["op"]["op"], r["outcome"]])
                elif r["ev"] == "end" or r["ev"] == "case":
                    pass
                if r["ev"] in ("leaf",) or (r["ev"] == "op" and cur and len(cur["ops"]) >= 3):
                    key = json.dumps(cur, sort_keys=True)
                    if key not in seen and sum(1 for o in cur["ops"] if o[1] == "ok") >= 2:
                        seen.add(key)
                        dnt += 1
                        if dnt % 499 == 2:
                            ctx.add_samples([dict(cur)])
        add_bad(res, {"chunk_seed": res.get("chunk_seed")})
        for k in ("views", "reads", "mutrefs"):
            ctx.cov["chain_" + k] = ctx.cov.get("chain_" + k, 0) + res["stats"].get(k, 0)
    for k, v in sorted(drift_sigs.items()):
        ctx.drift("%s count=%d first=%s" % (k, v, drift_first.get(json.dumps(json.loads(k), sort_keys=True), "")[:200]))
    ctx.judge(list(merged.values()), "vh-tensor construct/chains", "tensor/Trace_Construct|tensor/Trace_Chains", "",
              case_lookup=lambda rec: {"views": ctx.cov.get("chain_params", [0, 0])[0], "muts": ctx.cov.get("chain_params", [0, 0])[1]})
    ctx.cov["evaluations"] = total
    ctx.cov["distinct_nontrivial"] = dnt
    ctx.cov["traces_validated_against_impl"] = total
    ctx.finish(
        rule="cases = constructor test vectors (shape, strides, storage lengths; each offered to 8-19 constructors) + growth source layouts "
             "(each grown along every axis by 1 and 2, 3 capacities, 2-4 construction routes, stride variants on size<=1 axes) + seeded marker-tensor "
             "chains (view chains with get/[]/weak reads after every op; mutable chains ending in one way of holding many &mut). "
             "distinct by vector / by (kind, shape, op sequence with outcomes); non-trivial = a constructor accepted a tensor with >= 2 "
             "elements / an accepted growth whose result handed out >= 2 live &mut / the chain has >= 2 successful operations",
        assumptions=["offsets are judged in exact arithmetic on the strides the accepted tensor reports",
                     "chains: shape()/strides()/data_ptr()/storage length describe the view (observation instruments); "
                     "a view whose layout exceeds its storage window is flagged and not read through",
                     "iterator histories are covered by C07; here iter_mut/lanes_mut/inner/axis/chunks/split_at_mut are only drained to collect live &mut",
                     "undefined behaviour is observed only through marker values, guard bands and addresses"],
        exhaustive=False)


def replay(ctx):
    rp = ctx.replay
    rec = rp["record"]
    if "grow" in rec:  # growth of an owned tensor: re-run the source layout
        g = rec["grow"]
        f = ctx.path("replay.jsonl")
        with open(f, "w") as fh:
            fh.write(json.dumps({"class": "small", "shapeW": g["shapeW"], "stridesW": g["stridesW"], "lens": []}) + "\n")
        finish(ctx, [], [], grow_part(ctx, [f], 1))
    elif "run" in rec:  # constructor vector
        case = rec["case"]
        f = ctx.path("replay.jsonl")
        with open(f, "w") as fh:
            fh.write(json.dumps({"class": case["class"], "shapeW": case["shapeW"], "stridesW": case["stridesW"],
                                 "lens": [rec["run"]["len"]]}) + "\n")
        finish(ctx, construct_part(ctx, [f], 1), [])
    else:
        views, muts = rp["case"]["views"], rp["case"]["muts"]
        finish(ctx, [], chains_part(ctx, 1, views, muts, 1, only=(rec["chunk_seed"], rec["cid"])))
