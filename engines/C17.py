"""C17 - Quantized integer kernels are exact.

1. Int8Sat.tla: TLC enumerates every (u8, i8) value and checks that inside the documented reduced
   range a vpmaddubsw pair sum cannot saturate (the may_saturate() contract is satisfiable) and that
   it can outside.
2. impl -> spec, kernel level: vh-gemm int8 runs every u8 x i8 -> i32 kernel (generic, AVX2,
   AVX-512 VNNI): all 256 x 256 value pairs x zero points {0,1,127,128,255} x {-128,-1,0,127}, extremes,
   boundary / random shapes, per-row / per-column zero points, prepacked and im2col operands, beta,
   bias; Trace_Int8.tla recomputes SUM (a - za)(b - zb) in TLA+.  Kernels reporting may_saturate()
   are judged inside the documented reduced range only.
3. impl -> spec, operator level: MatMulInteger / ConvInteger (+ fused ...ToFloat with power-of-two
   scales) and DynamicQuantizeLinear -> DequantizeLinear as single-operator ONNX models through
   rten::Model; Trace_QOps.tla holds the ONNX reference semantics and the one-step bound."""
import json
import os

import vlib

JOPTS = {"JAVA_TOOL_OPTIONS": "-Xss1g -Dtlc2.tool.queue.IStateQueue=StateDeque -XX:ParallelGCThreads=4"}
K_SPEC, K_CFG = "gemm/Trace_Int8", "gemm/Trace_Int8.cfg"
O_SPEC, O_CFG = "gemm/Trace_QOps", "gemm/Trace_QOps.cfg"
KEY_K = ["kernel", "api", "threads", "cls", "m", "n", "k", "fam", "beta", "bias_kind", "a_form", "b_form",
         "a_layout", "b_layout", "has_za", "has_zb"]


def run(ctx):
    ctx.build(["vh-gemm"])
    if ctx.replay:
        return replay(ctx)
    ctx.tlc_mc("gemm/Int8Sat", "gemm/Int8Sat.cfg", workers=2, timeout=900,
               label="saturation hazard of vpmaddubsw over every (u8, i8) value")
    names = json.loads(ctx.harness("vh-gemm", ["int8-kernels"]).strip().splitlines()[-1])
    ctx.cov["kernels"] = names
    if ctx.quick:
        plan = [("16", None, 36, 1)]
        nops = 125
    else:
        plan = [("16", None, 200, 20), ("1", "1", 40, 0)]
        nops = 900
    bad_k, bad_o, traces, totals = [], [], [], {}
    for tag, nthreads, n, npairs in plan:
        env = {"RAYON_NUM_THREADS": nthreads} if nthreads else {}
        groups = [None] if ctx.quick else names
        for kname in groups:
            trace = ctx.path("int8_t%s_%s.ndjson" % (tag, kname or "all"))
            args = ["int8", "--out", trace, "--cases", n, "--pairs", npairs] + (["--kernel", kname] if kname else [])
            ctx.harness("vh-gemm", args, env=env)
            res = ctx.tlc_trace(K_SPEC, K_CFG, trace, timeout=9000, env=JOPTS)
            bad_k += res["bad"]
            traces.append(trace)
            for k, v in res["stats"].items():
                totals[k] = totals.get(k, 0) + v
    otrace = ctx.path("qops.ndjson")
    ctx.harness("vh-gemm", ["qops", "--out", otrace, "--cases", nops])
    ores = ctx.tlc_trace(O_SPEC, O_CFG, otrace, timeout=9000, env=JOPTS)
    bad_o += ores["bad"]
    for k, v in ores["stats"].items():
        totals["op_" + k] = v
    if ores["stats"].get("dql_nonint", 0):
        ctx.drift("DynamicQuantizeLinear->DequantizeLinear: %d case(s) produced a scale or output that is not exactly "
                  "representable in the logged unit although the input range is 255*2^k; those cases were not judged"
                  % ores["stats"]["dql_nonint"])
    if not ctx.quick or os.environ.get("VERIF_SELFTEST"):
        self_test(ctx, traces[0], otrace)
    finish(ctx, traces, otrace, bad_k, bad_o, totals, exhaustive_pairs=not ctx.quick)


def finish(ctx, traces, otrace, bad_k, bad_o, totals, exhaustive_pairs=False):
    total = dnt = 0
    for t in traces:
        a, b, c, samples = vlib.scan_cases(t, KEY_K, lambda r: r["m"] * r["n"] * r["k"] > 0)
        total += a
        dnt += c
        ctx.add_samples(samples, cap=3)
    if otrace:
        a, b, c, samples = op_scan(otrace)
        total += a
        dnt += c
        ctx.add_samples(samples, cap=6)
    ctx.cov["evaluations"] = total
    ctx.cov["distinct_nontrivial"] = dnt
    ctx.cov["traces_validated_against_impl"] = total
    ctx.cov["spec_counters"] = totals
    if exhaustive_pairs:
        ctx.cov["notes"].append("value-pair sub-space enumerated completely: 256 x 256 (u8, i8) pairs x 5 x 4 zero points x every "
                                "int8 kernel (pairs cases = %d)" % totals.get("pairs", 0))
    ctx.judge(bad_k, "vh-gemm int8", K_SPEC, K_CFG, case_lookup=lambda rec: {"id": rec.get("id"), "threads": rec.get("threads"), "engine": "int8"})
    ctx.judge(bad_o, "vh-gemm qops", O_SPEC, O_CFG, case_lookup=lambda rec: {"id": (rec.get("case") or {}).get("id"), "engine": "qops"})
    ctx.finish(
        rule="kernel level: one evaluation = one GEMM call (kernel, shape, operand forms/layouts, zero points, beta, bias) whose complete "
             "i32 output is compared in TLA+; distinct by those fields; operator level: one model run; distinct by operator and all "
             "shape/type/zero-point parameters; non-trivial = non-empty product (M*N*K > 0)",
        assumptions=[
            "kernels with may_saturate() = true are judged only when u8 values <= 127 and i8 values in [-64, 63] (weakest reading of the "
            "documented reduced range); outside it their results are recorded but not judged",
            "alpha = 1 and beta in {0, 1}: the int8 kernels assert / assume these (other values are outside the property)",
            "the exhaustive value-pair enumeration (thorough tier) uses K = 4 with the pair repeated in all four lanes (worst case for "
            "pairwise saturation); other lane mixes are sampled by the random / extreme cases",
            "operators run on the default int8 kernel of this host (AVX-512 VNNI, may_saturate = false); the i8-LHS shift strategy used "
            "when the default kernel may saturate cannot be exercised here",
            "DynamicQuantizeLinear is judged on inputs whose range is 255*2^k (scale exactly 2^k) and multiples of 2^(k-s), s <= 3"],
        exhaustive=False)


def op_scan(trace):
    seen, total, nt, samples = set(), 0, 0, []
    for line in open(trace):
        if '"ev":"case"' not in line:
            continue
        r = json.loads(line)
        total += 1
        small = {k: v for k, v in r.items() if not (isinstance(v, list) and len(v) > 16) and k not in ("seq",)}
        key = json.dumps(small, sort_keys=True)
        if key in seen:
            continue
        seen.add(key)
        nt += 1
        if len(samples) < 3 and total % 5 in (1, 3, 0):
            samples.append(small)
    return total, len(seen), nt, samples


def self_test(ctx, ktrace, otrace):
    """Binding self-test: corrupt one output element of a passing kernel case and one of a passing
    operator case; both trace specs must flag exactly those cases."""
    def corrupt(src, dst, is_ok, mutate, limit):
        out, want, cur = [], None, None
        for ln in open(src).read().splitlines()[:limit]:
            r = json.loads(ln)
            if r.get("ev") == "case":
                cur = r
            elif r.get("ev") == "ret" and want is None and is_ok(cur, r):
                mutate(r)
                want = r["id"]
            out.append(json.dumps(r))
        with open(dst, "w") as f:
            f.write("\n".join(out) + "\n")
        return want

    def k_ok(c, r):
        # an exhaustive value-pair case of a non-saturating kernel (uniform zero points: always judged)
        return r["outcome"] == "ok" and len(r["out"]) > 2 and c["cls"] == "pairs" and not c["sat"]

    def k_mut(r):
        r["out"][len(r["out"]) // 2] += 1

    def o_ok(c, r):
        return r["outcome"] == "ok" and c["op"] == "DynamicQuantizeLinear"

    def o_mut(r):
        # move one dequantized value two steps away from the input
        r["outs"][3]["data"][0] += 2 * r["outs"][1]["data"][0] + 1

    p1 = ctx.path("int8_selftest.ndjson")
    w1 = corrupt(ktrace, p1, k_ok, k_mut, 7)
    r1 = ctx.tlc_trace(K_SPEC, K_CFG, p1, env=JOPTS)
    ctx.cov["trace_runs"][-1]["role"] = "binding self-test (corrupted trace, expected to be rejected)"
    f1 = {b["rec"].get("id") for b in r1["bad"] if b["sig"].get("pred") == "value" and b["sig"].get("trigger") == "other"}
    p2 = ctx.path("qops_selftest.ndjson")
    w2 = corrupt(otrace, p2, o_ok, o_mut, 200)
    r2 = ctx.tlc_trace(O_SPEC, O_CFG, p2, env=JOPTS)
    ctx.cov["trace_runs"][-1]["role"] = "binding self-test (corrupted trace, expected to be rejected)"
    f2 = {(b["rec"].get("case") or {}).get("id") for b in r2["bad"] if b["sig"].get("pred") == "bound"}
    if w1 is None or w2 is None or w1 not in f1 or w2 not in f2:
        raise vlib.ToolError("binding self-test failed: corrupted %s / %s, flagged %s / %s" % (w1, w2, sorted(f1), sorted(f2)))
    ctx.cov["notes"].append("binding self-test: corrupted kernel output (%s) and corrupted dequantized value (%s) were rejected" % (w1, w2))


def replay(ctx):
    rp = ctx.replay
    case = rp.get("case") or {}
    cid = case.get("id")
    if case.get("engine") == "qops" or rp.get("engine") == "vh-gemm qops":
        idx = int(cid.split(":")[1])
        trace = ctx.path("qops_replay.ndjson")
        ctx.harness("vh-gemm", ["qops", "--out", trace, "--cases", idx + 1, "--only-id", cid])
        res = ctx.tlc_trace(O_SPEC, O_CFG, trace, env=JOPTS)
        return finish(ctx, [], trace, [], res["bad"], res["stats"])
    kernel, t, idx = cid.split(":")
    env = {"RAYON_NUM_THREADS": "1"} if t == "t1" else {}
    npairs = 20 if rp.get("tier") == "thorough" and t != "t1" else (1 if rp.get("tier") != "thorough" else 0)
    trace = ctx.path("int8_replay.ndjson")
    ctx.harness("vh-gemm", ["int8", "--out", trace, "--cases", int(idx) + 1, "--pairs", npairs, "--kernel", kernel,
                            "--only-id", cid], env=env)
    res = ctx.tlc_trace(K_SPEC, K_CFG, trace, env=JOPTS)
    finish(ctx, [trace], None, res["bad"], [], res["stats"])
