"""Helpers shared by the rten-generate engines (C31, C32, C33)."""
import json
import re
from concurrent.futures import ThreadPoolExecutor

import vlib


def mc_and_generate(ctx, spec, cfg, outfile, workers=4, timeout=1800, heap="8g", label=None):
    """One TLC run that model-checks the invariants of `cfg` (which include the Emit generator
    invariant) and collects the REPLAY lines (deduplicated, order kept) into `outfile`.
    The run must complete cleanly, else it is a tool error."""
    rc, out, dt = ctx._tlc(spec, cfg, workers, timeout, heap=heap)
    gen, distinct = ctx._stats(out)
    ok = rc == 0 and "Model checking completed. No error has been found." in out
    pat = re.compile(r'<<"REPLAY", %s>>' % vlib._STR)
    seen = set()
    n = 0
    with open(outfile, "w") as f:
        for m in pat.finditer(out):
            line = vlib.tla_unescape(m.group(1)).replace("\n", " ")
            if line in seen:
                continue
            seen.add(line)
            f.write(line + "\n")
            n += 1
    info = {"spec": spec, "cfg": cfg, "role": "model_checking+generator", "behaviours": n,
            "states_generated": gen, "distinct_states": distinct, "ok": ok, "wall_s": round(dt, 1)}
    if label:
        info["label"] = label
    ctx.cov["mc_runs"].append(info)
    ctx.cov["states"] += distinct
    ctx.cov["transitions"] += gen
    ctx.log("TLC %s/%s: %d generated, %d distinct, %d behaviours, ok=%s, %.1fs" % (
        spec, cfg.split("/")[-1], gen, distinct, n, ok, dt))
    if not ok or n == 0:
        import sys
        sys.stdout.write(out[-5000:])
        raise vlib.ToolError("TLC run %s with %s did not complete cleanly (rc=%s, behaviours=%d)" % (spec, cfg, rc, n))
    return n


def parallel_trace(ctx, spec, cfg, traces, workers=4, timeout=3000, heap="6g"):
    """Validate several trace files concurrently; returns the merged result."""
    with ThreadPoolExecutor(max_workers=workers) as ex:
        results = list(ex.map(lambda t: ctx.tlc_trace(spec, cfg, t, timeout=timeout, heap=heap), traces))
    return merge(results)


def merge(results):
    stats, bad, badtotal, events = {}, [], 0, 0
    for res in results:
        for k, v in res["stats"].items():
            stats[k] = stats.get(k, 0) + v
        bad += res["bad"]
        badtotal += res["badtotal"]
        events += res["events"]
    # one entry per signature, counts added up
    by = {}
    for b in bad:
        key = json.dumps(b["sig"], sort_keys=True)
        if key in by:
            by[key]["count"] += b.get("count", 1)
        else:
            by[key] = dict(b)
    return {"bad": list(by.values()), "badtotal": len(by), "stats": stats, "events": events}


def split_cases(trace, max_lines):
    """Leading whole cases of an NDJSON trace, at most ~max_lines lines (list of parsed records)."""
    recs = []
    with open(trace) as f:
        for line in f:
            r = json.loads(line)
            if r.get("ev") == "case" and len(recs) >= max_lines:
                break
            recs.append(r)
    return recs


def self_test(ctx, spec, cfg, recs, mutations):
    """Binding self-test: each mutation corrupts one recorded field of a copy of `recs`;
    the trace spec must then report a failed predicate whose signature contains the stated
    fields (and that the unmodified records do not produce).  mutations: list of
    (name, fn(recs) -> bool (applied?), expected signature subset)."""
    import copy

    def sigs(rs, tag):
        p = ctx.path("selftest_%s.ndjson" % tag)
        with open(p, "w") as f:
            for r in rs:
                f.write(json.dumps(r) + "\n")
        runs_before = len(ctx.cov["trace_runs"])
        res = ctx.tlc_trace(spec, cfg, p)
        # self-test runs are not evidence about the code: keep them out of the trace-run list
        st = ctx.cov["trace_runs"].pop(runs_before)
        ctx.cov["states"] -= st["states"]
        return [b["sig"] for b in res["bad"]]

    base = sigs(recs, "base")
    report = []
    for name, fn, expect in mutations:
        m = copy.deepcopy(recs)
        if not fn(m):
            raise vlib.ToolError("self-test mutation %r found nothing to corrupt" % name)
        got = sigs(m, re.sub(r"\W", "_", name))
        new = [s for s in got if s not in base]
        hit = any(all(s.get(k) == v for k, v in expect.items()) for s in new)
        report.append({"mutation": name, "expected_signature": expect, "detected": hit, "new_signatures": new[:4]})
        if not hit:
            raise vlib.ToolError("binding self-test: corrupting %s was NOT detected by %s (got %s)" % (name, spec, new))
    ctx.cov["self_test"] = report
    ctx.log("binding self-test: %d/%d corruptions detected" % (len(report), len(mutations)))
