"""C24 - Control-flow subgraphs behave like the equivalent inlined graph.

1. Design level (specs/graph/ControlFlow.tla, MC_ControlFlow*.cfg): Executor.tla extended with nested scopes.
   A parent plan a,b -> pre -> CF -> post whose CF operator is an If or a Loop (trip 0..2, carried value, scan
   output) with a body of <= 2 operators (in-place capable or not) that read parent values by name, optionally
   containing a nested If/Loop (depth 2).  The transcription of Graph::run_plan / CaptureEnv / If / Loop
   (usage counts with transitive capture names, by-value extraction at count 1, per-iteration clone of the
   by-value captures, in-place candidates through can_take_input) is model-checked on EVERY program of the
   family against the contract: a parent value with a later reader (or requested) is intact while and after
   the control-flow operator runs; the requested outputs equal the inlined evaluation; no read of a value
   that is gone.  Mutated transcriptions (Loop moves instead of cloning; by-value extraction ignores the
   count) must violate the contract, and the region "scan output of a zero-iteration loop" is explored
   separately: TLC reports the design-level candidate (fewer outputs than declared).
2. Binding impl -> spec (harness vh-cf, specs/graph/Trace_ControlFlow.tla): seeded programs with nested If /
   Loop over the exact integer operator subset are encoded as ONNX models, loaded by rten with optimisation on
   and off and run with owned and borrowed inputs on 1..3 input sets; for every input set the INLINED model
   (selected branches, unrolled loops) is generated and run by the real code too.  TLC evaluates every program
   (OnnxOps + the ONNX If/Loop semantics written in the trace spec) and requires: control-flow outputs =
   inlined outputs = reference; captured parent values requested as outputs / used afterwards = reference; a
   control-flow model may not fail where its inlined model runs.
3. Binding spec -> impl (vh-cf mixers): the programs TLC enumerates from ControlFlow.tla (generator view of
   the same family) are built as real rten Graphs - synthetic mixer operators with a destructive in-place
   path, the real ops::If / ops::Loop operator structs, hand-built subgraphs with capture lists - and run by
   Graph::run; TLC computes the inlined evaluation with the mixer arithmetic and compares every output.
4. Binding self-tests: one output element of recorded runs is changed (both bindings), TLC must flag it."""
import concurrent.futures
import json
import os

import vlib

SPEC = "graph/Trace_ControlFlow"
CFG = "graph/Trace_ControlFlow.cfg"
MC = "graph/MC_ControlFlow"

MC_QUICK = ["all_q"]
MC_THOROUGH = ["nest_t", "loop_t2", "loop_t1", "if_t2", "if_t1"]   # longest first
# cfg -> invariant that TLC must report as violated
MC_EXPECT = {"zeroscan": "NoFault", "mut_noclone": "NoFault", "mut_nocount": "ParentValuesIntact"}

NONTRIVIAL = {"inplace_candidate_last_use", "inplace_candidate_needed_afterwards", "nested", "loop_carried",
              "scan_output", "zero_iteration_loop_executed", "captured_value_requested_as_output"}


def mc_one(ctx, name, workers):
    cfg = "graph/MC_ControlFlow_%s.cfg" % name
    if name in MC_EXPECT:
        info, out = ctx.tlc_mc(MC, cfg, workers=workers, timeout=2400, expect_ok=False, heap="6g",
                               label="expected violation: " + name)
        inv = MC_EXPECT[name]
        if "Invariant %s is violated" % inv not in out:
            raise vlib.ToolError("MC_ControlFlow_%s: TLC did not report the expected violation of %s" % (name, inv))
        info["expected_violation"] = inv
        return name, info, out
    info, out = ctx.tlc_mc(MC, cfg, workers=workers, timeout=3000, heap="8g", label=name, extra=["-coverage", "1000"])
    return name, info, out


def corrupted_copies(trace, want=3):
    """Binding self-test material: copies of recorded cases (marked st = true) in which one output
    element of one successful control-flow run is changed by 1."""
    lines = open(trace).read().splitlines()
    out = []
    for i in range(0, len(lines) - 1, 2):
        case, res = json.loads(lines[i]), json.loads(lines[i + 1])
        if case.get("ev") != "case" or res.get("ev") != "res" or res["kind"] != "done":
            continue
        hit = False
        for run in res["runs"]:
            inl_ok = all(v["outcome"] == "ok" for v in run if v["model"] == "inl")
            for v in run:
                if inl_ok and v["model"] == "cf" and v["outcome"] == "ok" and v["outs"] and v["outs"][-1]["data"]:
                    v["outs"][-1]["data"][0] += 1
                    hit = True
                    break
            if hit:
                break
        if hit:
            case["st"] = True
            out += [json.dumps(case), json.dumps(res)]
            if len(out) >= 2 * want:
                break
    return out


def record_and_validate(ctx, chunk, first, n, deep):
    trace = ctx.path("cf%d.ndjson" % chunk)
    args = ["gen", "--out", trace, "--cases", n, "--first-idx", first]
    if deep:
        args.append("--deep")
    ctx.harness("vh-cf", args, timeout=3000)
    ninj = 0
    if chunk == 0:
        extra = corrupted_copies(trace)
        ninj = len(extra) // 2
        with open(trace, "a") as f:
            f.write("\n".join(extra) + "\n")
    res = ctx.tlc_trace(SPEC, CFG, trace, timeout=3000, heap="6g")
    res["injected"] = ninj
    return trace, res


def replay_design_family(ctx):
    """spec -> impl: the programs TLC enumerates from ControlFlow.tla, executed by the real Graph::run with
    mixer operators and the real If / Loop operator structs; TLC compares with the inlined evaluation."""
    allp = ctx.path("design_all.jsonl")
    n = ctx.tlc_generate(MC, "graph/MC_ControlFlow_gen_%s.cfg" % ("q" if ctx.quick else "t"), allp,
                         workers=3 if ctx.quick else 4, timeout=3000, heap="10g")
    chunks = 1 if ctx.quick else 4
    per = 1000 if ctx.quick else 6000
    sel = ctx.path("design_sel.jsonl")
    k = vlib.sample_lines(allp, sel, chunks * per, ctx.seed)
    lines = open(sel).read().splitlines()

    def one(c):
        part = lines[c::chunks]
        pf, trace = ctx.path("design%d.jsonl" % c), ctx.path("mix%d.ndjson" % c)
        with open(pf, "w") as f:
            f.write("\n".join(part) + "\n")
        ctx.harness("vh-cf", ["mixers", "--programs", pf, "--out", trace], env={"VERIF_SEED": str(ctx.seed + c)})
        ninj = 0
        if c == 0:
            # binding self-test material: one recorded run with one output element changed
            tl = open(trace).read().splitlines()
            for i in range(0, len(tl) - 1, 2):
                case, res = json.loads(tl[i]), json.loads(tl[i + 1])
                if res.get("kind") == "ok" and res["outs"] and res["outs"][0]["data"]:
                    case["st"] = True
                    res["outs"][0]["data"][0] = (res["outs"][0]["data"][0] + 1) % 65521
                    with open(trace, "a") as f:
                        f.write(json.dumps(case) + "\n" + json.dumps(res) + "\n")
                    ninj = 1
                    break
        r = ctx.tlc_trace(SPEC, CFG, trace, timeout=3000, heap="6g")
        r["injected"] = ninj
        return r

    with concurrent.futures.ThreadPoolExecutor(max_workers=chunks) as ex:
        rs = list(ex.map(one, range(chunks)))
    return n, k, rs


def scan_trace(trace, acc):
    for line in open(trace):
        if '"ev":"case"' not in line:
            continue
        r = json.loads(line)
        if r.get("st"):
            continue
        acc["cases"] += 1
        key = json.dumps(r["prog"], sort_keys=True)
        tags = set(r["tags"])
        for t in tags:
            acc["tags"][t] = acc["tags"].get(t, 0) + 1
        if key in acc["seen"]:
            continue
        acc["seen"].add(key)
        if "capture" in tags and tags & NONTRIVIAL:
            acc["nontrivial"] += 1
            if len(acc["samples"]) < 3:
                acc["samples"].append({"id": r["id"], "tags": r["tags"], "prog": r["prog"], "runs": r["runs"]})


def run(ctx):
    ctx.build(["vh-graph"])
    if ctx.replay:
        rec = ctx.replay["record"]
        trace = ctx.path("replay.ndjson")
        args = ["gen", "--out", trace, "--only-idx", rec["id"]]
        if ctx.tier == "thorough":
            args.append("--deep")
        ctx.harness("vh-cf", args)
        res = ctx.tlc_trace(SPEC, CFG, trace)
        ctx.judge([b for b in res["bad"] if b["sig"].get("prop") == "C24"], "vh-cf gen", SPEC, CFG)
        ctx.finish(rule="replay of one recorded case", exhaustive=False)

    # ---- 1. design level and 2. binding, side by side ----
    names = MC_QUICK if ctx.quick else (MC_THOROUGH + list(MC_EXPECT))
    total = 500 if ctx.quick else 12000
    chunks = 2 if ctx.quick else 4
    per = total // chunks
    with concurrent.futures.ThreadPoolExecutor(max_workers=4 if ctx.quick else 6) as ex:
        # (the long model-checking instances first, so that they do not start last)
        mfuts = [ex.submit(mc_one, ctx, n, 2 if n in MC_EXPECT else 4) for n in names[:2]]
        dfut = ex.submit(replay_design_family, ctx)
        bfuts = [ex.submit(record_and_validate, ctx, k, k * per, per, not ctx.quick) for k in range(chunks)]
        mfuts += [ex.submit(mc_one, ctx, n, 2 if n in MC_EXPECT else 4) for n in names[2:]]
        results = [f.result() for f in bfuts]
        mc_results = [f.result() for f in mfuts]
        design_total, design_replayed, design_results = dfut.result()
    programs = 0
    for name, info, out in mc_results:
        if name not in MC_EXPECT:
            programs += info.get("action_coverage", {}).get("ControlFlow.Start", 0)
    zs = [out for name, info, out in mc_results if name == "zeroscan"]
    design_candidate = bool(zs) and "fewer_outputs_than_declared" in zs[0]
    if zs and not design_candidate:
        raise vlib.ToolError("MC_ControlFlow_zeroscan: the violated state does not show fault = fewer_outputs_than_declared")

    acc = {"cases": 0, "seen": set(), "nontrivial": 0, "samples": [], "tags": {}}
    stats = {}
    drift_seen = set()
    all_mine = []
    for trace, res in results:
        scan_trace(trace, acc)
        for k, v in res["stats"].items():
            stats[k] = stats.get(k, 0) + v
        mine = [b for b in res["bad"] if b["sig"].get("prop") == "C24"]
        for b in res["bad"]:
            if b["sig"].get("prop") == "drift":
                key = json.dumps(b["sig"], sort_keys=True)
                if key not in drift_seen:
                    drift_seen.add(key)
                    ctx.drift("inlined (control-flow free) model: %s, %d run(s), first case id %s - not a control-flow matter (C01/C15 territory)"
                              % (key, b.get("count", 1), b["rec"].get("id")))
        for b in mine:
            # keep replay files small: the record carries the case id (the case is regenerated from seed + id)
            b["rec"] = {k: b["rec"][k] for k in b["rec"] if k not in ("prog",)} | {"prog_size": len(json.dumps(b["rec"].get("prog", "")))}
        all_mine += mine
    dstats = 0
    for r in design_results:
        dstats += r["stats"].get("design_programs_replayed", 0)
        for b in r["bad"]:
            if b["sig"].get("prop") == "C24":
                all_mine.append(b)
    ctx.judge(all_mine, "vh-cf gen", SPEC, CFG)
    stats.pop("design_programs_replayed", None)     # (counted by the replay traces, see below)
    if stats.get("died", 0):
        ctx.cov["notes"].append("%d case(s) ended with a dead child process" % stats["died"])
    if stats.get("ref_undefined", 0) * 20 > max(1, stats.get("runs", 0)):
        raise vlib.ToolError("more than 5%% of the runs have an undefined reference (%s of %s): generator and reference disagree"
                             % (stats.get("ref_undefined"), stats.get("runs")))

    # ---- 3. binding self-test: the corrupted copies appended to chunk 0 must have been flagged ----
    res0 = results[0][1]
    st = [b for b in res0["bad"] if b["sig"].get("prop") == "selftest"]
    checks = sorted({b["sig"].get("check") for b in st})
    nflag = sum(b.get("count", 1) for b in st)
    if res0["injected"] == 0:
        raise vlib.ToolError("binding self-test: no successful control-flow run to corrupt")
    if "control_flow_model_differs_from_inlined_model" not in checks or not any(c.endswith("differs_from_reference") or c.endswith("after_subgraph_ran") for c in checks):
        raise vlib.ToolError("binding self-test: corrupted outputs were not flagged (checks=%s)" % checks)
    dst = [b for b in design_results[0]["bad"] if b["sig"].get("prop") == "selftest"]
    if design_results[0]["injected"] == 0 or not any(b["sig"].get("check", "").startswith("design_family_program_on_real_executor_differs") for b in dst):
        raise vlib.ToolError("binding self-test (design family replay): corrupted output was not flagged")
    ctx.cov["notes"].append("binding self-test (design family replay): one output element of one replayed program changed -> flagged")
    ctx.cov["notes"].append("binding self-test: %d recorded cases re-validated with one output element of one control-flow run changed by 1 -> %d predicate failures (%s)"
                            % (res0["injected"], nflag, ", ".join(checks)))

    if design_candidate:
        hit = any(k["signature"].get("zero_iteration_loop_with_scan_output") == "yes" for k, _ in ctx.known)
        ctx.cov["notes"].append("design-level candidate from MC_ControlFlow_zeroscan (a Loop with a scan output and zero iterations returns fewer outputs than declared: fault = fewer_outputs_than_declared) - "
                                + ("confirmed on the real code by the binding (known finding)" if hit else "NOT observed on the real code in this run (transcription drift?)"))
        if not hit:
            ctx.drift("SkipEmptyScan transcription: TLC finds the zero-iteration scan-output fault but the real code did not show it")
    ctx.cov.update({
        "evaluations": stats.get("cf_runs_ok", 0) + stats.get("cf_runs_failed", 0),
        "distinct_nontrivial": acc["nontrivial"],
        "traces_validated_against_impl": acc["cases"] + dstats - 1,
        "programs": len(acc["seen"]),
        "design_programs_model_checked": programs,
        "design_programs_enumerated_for_replay": design_total,
        "design_programs_replayed_on_real_executor": dstats - 1,
        "binding_counters": stats,
        "generator_tag_counts": dict(sorted(acc["tags"].items())),
    })
    ctx.add_samples(acc["samples"])
    ctx.finish(
        rule="design level: TLC enumerates every program of the ControlFlow.tla family (Init x Start) and runs the transcribed executor on it; a sample of the "
             "same family (all of it would take too long to validate) is executed by the real Graph::run with mixer operators and the real If/Loop structs; "
             "binding: case = one generated program (nested If/Loop ONNX model) run as 4 control-flow variants (optimisation on/off x owned/borrowed inputs) "
             "and 2 inlined variants on each of 1..3 input sets; evaluations = control-flow model runs judged by TLC; distinct_nontrivial = distinct programs "
             "in which a subgraph captures a parent value AND at least one of: captured value at an in-place position, nesting, loop-carried value, scan output, "
             "executed zero-iteration loop, captured value requested as output",
        assumptions=["operators are the exact integer subset (Add/Sub/Mul/Min/Max/Neg/Abs/Relu/Identity/Cast/Concat/ReduceSum/Less/Equal/Greater/Not) on small f32/i32 tensors; "
                     "the reference is OnnxOps.tla plus the If/Loop semantics in Trace_ControlFlow.tla (written from the ONNX operator documentation)",
                     "conditions and trip counts are statically known to the generator (model inputs with known data, constants, iteration counters) so that the inlined model can be built without evaluating tensors in the harness",
                     "shape / element type of the scan output of a zero-iteration loop are not judged (only that it has no elements)",
                     "in the design-family replay synthetic mixer operators (harness-defined through the rten::verif hook) stand in for real operators; all tensors have one element there",
                     "the design-level family is small (2 parent inputs, <= 2 operators per subgraph, depth 2, trip counts <= 2); sequence values, prepacked weights and threads are not modelled"],
        exhaustive=False)
