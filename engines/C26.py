"""C26 - Invalid run requests are reported as errors.

PlanCache.tla (the cache with the transcribed CachedPlan::matches, requests as id *sequences*) is
model-checked; TLC generates (a) every history of <= 2/3 request classes (RequestClasses.tla) and
(b) every history of explicit id sequences of the cache model; the harness replays them on a real
Model through run / partial_run / run_one; Trace_Requests classifies every request with RunRequests.tla
(ids unknown/duplicated/non-value, missing required inputs, dtype/rank/fixed-dim mismatch against the
declared metadata) and requires `err` (never ok, never panic) for the invalid ones. The sequential histories are replayed with
two builds of the harness: release, and `checked` (overflow checks + debug assertions). Thorough tier:
PlanCacheInd.tla (PlanCache flattened, unbounded) - TLC checks the refinement, Apalache that its invariant
(stored lengths = cardinalities of the stored id sets; PlanFitsRequest) is inductive."""
import sys, os
sys.path.insert(0, os.path.dirname(__file__))
import vlib
import _reqlib


def run(ctx):
    ctx.build(["vh-graph"])
    # second build: the same code with overflow checks and debug assertions compiled in (the panics a debug
    # build would raise on an invalid request are violations of "reported as errors" too)
    ctx.build(["vh-graph"], profile="checked")
    if ctx.replay:
        raise vlib.ToolError("re-run the tier with seed %s (requests are derived from the seed)" % ctx.replay.get("seed"))
    ctx.tlc_mc("graph/MC_PlanCache", "graph/MC_PlanCache.cfg" if ctx.quick else "graph/MC_PlanCache_thorough.cfg",
               workers=6, timeout=3000)
    if not ctx.quick:
        # beyond TLC's bounds: PlanCache refines the flattened, unbounded PlanCacheInd (TLC), whose IndInv
        # (CacheConsistent /\ PlanFitsRequest) Apalache shows inductive: any number of requests, any interleaving
        ctx.tlc_mc("graph/MC_PlanCacheRef", "graph/MC_PlanCacheRef.cfg", workers=6, timeout=1500,
                   label="refinement PlanCache => PlanCacheInd!Spec (flattening of cached/cur/got) and IndInv in every reachable state")
        ctx.apalache_inductive("graph/MC_PlanCacheInd", "ConstInit", "Init", "IndInit", "IndInv", timeout=1500,
                               label="IndInv inductive; 3 threads, 3 input and 3 output ids, id sequences of length 1..3 incl. duplicates")
        ctx.apalache_step_must_fail("graph/MC_PlanCacheInd", ["PlanCacheInd", "MC_PlanCacheInd"], "ConstInit", "IndInit", "IndInv", "PlanCacheInd",
                                    "Len(ids) = n /\\ RangeOf(ids) = set", "Len(ids) = n /\\ RangeOf(ids) \\subseteq set",
                                    label="matches by length and membership only (the pinned defect)")
    h1 = ctx.path("class_hist.jsonl")
    n1 = ctx.tlc_generate("graph/RequestClasses", "graph/RequestClasses2.cfg" if ctx.quick else "graph/RequestClasses3.cfg", h1, workers=4)
    h2 = ctx.path("explicit_hist.jsonl")
    if ctx.quick:
        n2 = ctx.tlc_generate("graph/MC_PlanCache", "graph/MC_PlanCache_gen.cfg", h2, workers=4)
    else:
        n2 = ctx.tlc_generate("graph/MC_PlanCache", "graph/MC_PlanCache_gen3.cfg", h2, workers=1,
                              extra=["-simulate", "num=30000", "-depth", "8", "-seed", str(ctx.seed)])
    t1, t2, t3 = ctx.path("req_classes.ndjson"), ctx.path("req_explicit.ndjson"), ctx.path("req_conc.ndjson")
    ctx.harness("vh-graph", ["requests", "--mode", "seq", "--hist", h1, "--out", t1])
    ctx.harness("vh-graph", ["requests", "--mode", "seq", "--hist", h2, "--out", t2])
    ctx.harness("vh-graph", ["requests", "--mode", "conc", "--cases", 10 if ctx.quick else 200, "--threads", 0, "--calls", 20, "--out", t3])
    t1c, t2c = ctx.path("req_classes_checked.ndjson"), ctx.path("req_explicit_checked.ndjson")
    ctx.harness("vh-graph", ["requests", "--mode", "seq", "--hist", h1, "--out", t1c], profile="checked")
    ctx.harness("vh-graph", ["requests", "--mode", "seq", "--hist", h2, "--out", t2c], profile="checked")
    stats = _reqlib.validate(ctx, [t1, t2, t3, t1c, t2c], "C26", "vh-graph requests")
    total, distinct, samples = _reqlib.scan([t1, t2, t3])
    ctx.cov.update({"evaluations": total, "distinct_nontrivial": distinct, "traces_validated_against_impl": n1 + n2,
                    "invalid_requests_judged": stats["invalid_calls"], "plan_cache_hits": stats["cache_hits"],
                    "histories": {"class_histories": n1, "explicit_id_histories": n2}})
    ctx.add_samples(samples)
    ctx.finish(rule="case = one request in a history on one loaded model; distinct by (api, class, input ids/dtypes/shapes, output ids); all are non-trivial (each is classified valid/invalid by the spec)",
               assumptions=["validity is decided by RunRequests.tla from the graph and metadata reported by the loaded model (rten::verif hook)"],
               exhaustive=False)
