"""C21 - External tensor data cannot escape the model directory or its file bounds.

spec -> impl: TLC enumerates every location string (token sequences up to length 3 quick / 4 thorough
over a 15-token alphabet: names with recognised / unrecognised / no extension, "", ".", "..", "/",
"\\", "C:", unicode, an absolute path) and every (offset, length) pair of a 16-value boundary set
(0, 1, len-1, len, len+1, 2^31, 2^32, 2^62, 2^63-1, 2^63, 2^63+1, 2^64-len, 2^64-8, 2^64-1-len, 2^64-1),
checking the transcribed path and bounds predicates against the requirement; the harness builds an ONNX
model whose initializer uses that external data in a real directory tree and loads it through FileLoader,
MmapLoader and MemLoader; Trace_ExtData decides from the recorded outcome and bytes. Two builds of the harness
run the cases: cargo profile `release` (overflow checks off) and `checked` (release + overflow-checks +
debug-assertions; in the quick tier all (offset, length) pairs and the locations of <= 2 tokens); the build
profile is part of every signature."""
import json
import os

import vlib

SPEC = "load/Trace_ExtData"
CFG = "load/Trace_ExtData.cfg"


def run(ctx):
    ctx.build(["vh-load"])
    ctx.build(["vh-load"], profile="checked")
    trace = ctx.path("extdata.ndjson")
    if ctx.replay:
        case = ctx.replay["case"]
        ctx.harness("vh-load", ["extdata", "--out", trace, "--only-case", json.dumps(case)],
                    profile=case.get("build", "release"))
        res = ctx.tlc_trace(SPEC, CFG, trace, timeout=1800)
        return finish(ctx, [(trace, res)], 1)
    cases = ctx.path("cases.jsonl")
    cfg = "load/MC_ExternalData_3.cfg" if ctx.quick else "load/MC_ExternalData_4.cfg"
    # Model checking and generation in one run: PathSafe / RangeSafe / LoadersAgree are invariants of the
    # same configuration that prints the cases (a violated invariant makes TLC stop => no cases => tool error).
    info, out = ctx.tlc_mc("load/MC_ExternalData", cfg, workers=4, timeout=3000,
                           label="transcribed path and bounds predicates imply the requirement; case generation")
    n = 0
    import re
    pat = re.compile(r'<<"REPLAY", %s>>' % vlib._STR)
    with open(cases, "w") as f:
        for m in pat.finditer(out):
            f.write(vlib.tla_unescape(m.group(1)).replace("\n", " ") + "\n")
            n += 1
    if n == 0:
        raise vlib.ToolError("no cases generated")
    ctx.cov["cases_generated_by_tlc"] = n
    ctx.harness("vh-load", ["extdata", "--cases", cases, "--out", trace], timeout=3000)
    res = ctx.tlc_trace(SPEC, CFG, trace, timeout=3000, heap="12g")
    trace_c = ctx.path("extdata_checked.ndjson")
    ctx.harness("vh-load", ["extdata", "--cases", cases, "--out", trace_c, "--max-tokens", 2 if ctx.quick else 3],
                timeout=3000, profile="checked")
    res_c = ctx.tlc_trace(SPEC, CFG, trace_c, timeout=3000, heap="12g")
    if not ctx.quick or os.environ.get("VERIF_SELFTEST"):
        selftest(ctx, trace)
    finish(ctx, [(trace, res), (trace_c, res_c)], n)


def selftest(ctx, trace):
    """Binding self-test: corrupt recorded results and require the trace spec to reject them."""
    recs = [json.loads(l) for l in open(trace)]
    out = [recs[0]]
    want = {"bytes are not those of the named file": False, "disallowed location loaded": False,
            "out-of-range bytes loaded": False, "panic": False}
    i = 1
    done = set()
    while i + 1 < len(recs):
        c, r = recs[i], recs[i + 1]
        i += 2
        if "flip" not in done and r["outcome"] == "ok" and len(r["data"]) == 8 and c["kind"] == "path":
            r = dict(r, data=[r["data"][0] ^ 1] + r["data"][1:])
            done.add("flip")
        elif "escape" not in done and c["t"] == ["sub", "/", "in.data"] and c["loader"] == "file":
            # what a loader without the path check would return: the bytes of model/sub/in.data (file 20)
            r = dict(r, outcome="ok", err="", data=[(20 * 37 + j * 7 + 11) % 251 for j in range(8)])
            done.add("escape")
        elif "range" not in done and c["kind"] == "range" and c["off"] == [63] and c["len"] == [8] and c["loader"] == "mmap":
            r = dict(r, outcome="ok", err="", data=[(1 * 37 + (63 + j) * 7 + 11) % 251 for j in range(8)])
            done.add("range")
        elif "panic" not in done and r["outcome"] == "err" and c["kind"] == "path" and len(c["t"]) == 2:
            r = dict(r, outcome="panic")
            done.add("panic")
        else:
            if len(out) > 4000:
                continue
        out += [c, r]
    st = ctx.path("selftest.ndjson")
    with open(st, "w") as f:
        for k, r in enumerate(out):
            r["seq"] = k + 1
            f.write(json.dumps(r) + "\n")
    res = ctx.tlc_trace(SPEC, CFG, st, timeout=1800)
    for b in res["bad"]:
        if b["sig"]["class"] in want:
            want[b["sig"]["class"]] = True
    missing = [k for k, v in want.items() if not v]
    ctx.cov["binding_selftest"] = {"corruptions": sorted(done), "rejected_classes": [k for k, v in want.items() if v]}
    if missing or len(done) < 4:
        raise vlib.ToolError("binding self-test failed: corrupted trace not rejected for %s (applied %s)" % (missing, sorted(done)))
    ctx.log("binding self-test: 4 corrupted results rejected by Trace_ExtData")


def finish(ctx, runs, n):
    st = {}
    bad = []
    badtotal = 0
    dnt = 0
    builds = []
    for trace, res in runs:
        total, distinct, d, samples = vlib.scan_cases(
            trace, ["build", "loader", "kind", "t", "off", "len"],
            lambda r: len(r["t"]) >= 2 or r["kind"] == "range")
        ctx.add_samples(samples, cap=6)
        dnt += d
        for k, v in res["stats"].items():
            st[k] = st.get(k, 0) + v
        bad += res["bad"]
        badtotal += res["badtotal"]
        if samples:
            builds.append(samples[0]["build"])
    ctx.cov["evaluations"] = st.get("cases", 0)
    ctx.cov["distinct_nontrivial"] = dnt
    ctx.cov["traces_validated_against_impl"] = st.get("cases", 0)
    ctx.cov["builds"] = builds
    ctx.cov["loads_ok"] = st.get("ok", 0)
    ctx.cov["loads_ok_among_path_cases"] = st.get("ok_path_cases", 0)
    ctx.cov["loads_err"] = st.get("err", 0)
    ctx.cov["cases_with_allowed_location"] = st.get("allowed", 0)
    if st.get("empty_beyond_eof_ok", 0):
        ctx.cov["notes"].append(
            "%d load(s) of an EMPTY range at an offset beyond the end of the file succeeded (FileLoader; MmapLoader and "
            "MemLoader reject it). Not judged: an empty range holds no byte (see ExternalData!InRange)."
            % st["empty_beyond_eof_ok"])
    if not ctx.replay and st.get("ok_path_cases", 0) == 0:
        raise vlib.ToolError("vacuous run: no location loaded successfully")
    ctx.judge(bad, "vh-load extdata", SPEC, CFG, case_lookup=lambda rec: rec.get("case"), badtotal=badtotal)
    ctx.finish(
        rule="cases = (TLC-enumerated location or (offset,length) pair) x loader in {file, mmap, mem}; distinct by "
             "(loader, tokens, offset, length); non-trivial = location of >= 2 tokens or a boundary (offset,length) pair",
        assumptions=[
            "Unix path semantics (the sandbox is Linux); symlinks inside the model directory are not exercised",
            "build profiles exercised: harness profile `release` (overflow checks and debug assertions off) and "
            "`checked` (the same plus overflow-checks and debug-assertions); a panic in either is a violation",
            "'recognised data extension' is read as rten documents and implements it: the extension begins with "
            "'data' or 'onnx_data'",
            "an empty byte range is within any file whatever its offset",
            "the bytes of the loaded constant identify the file and range they were read from (test files have "
            "pairwise distinct contents at every offset)",
        ],
        exhaustive=True,
        explanation="every token sequence up to the stated length and every pair of the boundary set is enumerated by TLC "
                    "and replayed on all three loaders")
